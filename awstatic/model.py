"""E0 — program model: parse the repo's packages (never import them), index modules,
classes, functions, constants and imports, and resolve callees.

Callee resolution: local / enclosing / module / imported symbol; ``self.m()`` through
the class and its bases; attribute receivers through a small receiver-type table
(annotations, constructor assignments, and the frozen attribute table ATTR_TYPES that
was confirmed by reading); registry dispatch ``functions[name](...)`` to every function
decorated ``@q2_function``.
"""
from __future__ import annotations

import ast
import os

from .core import AnalysisError

PACKAGES = ["aw_core", "aw_datastore", "aw_transform", "aw_query", "aw_cli"]

# (class, attribute) -> class of the attribute's value.  "AbstractStorage" as a
# receiver type dispatches to every concrete subclass.
ATTR_TYPES = {
    ("Bucket", "ds"): "Datastore",
    ("Datastore", "storage_strategy"): "AbstractStorage",
    ("Datastore", "bucket_instances"): "dict[Bucket]",
    ("SqliteStorage", "conn"): "sqlite3.Connection",
    ("PeeweeStorage", "db"): "peewee.Database",
}


# (function short name, parameter) -> class; each entry is re-confirmed by a rule that looks at the
# call sites (C14 checks that check_for_migration is only ever given a SqliteStorage).
PARAM_TYPES = {
    ("peewee_v2_to_sqlite_v1", "datastore"): "SqliteStorage",
    ("check_for_migration", "datastore"): "SqliteStorage",
}


def src(node):
    try:
        return ast.unparse(node)
    except Exception:  # pragma: no cover
        return "<?>"


def norm(node):
    """Normalised text of a node (whitespace-insensitive)."""
    return " ".join(src(node).split())


class ModInfo:
    def __init__(self, name, path, relpath, source):
        self.name = name
        self.path = path
        self.relpath = relpath
        self.source = source
        self.tree = ast.parse(source, filename=path)
        self.imports = {}  # local name -> (module, symbol or None)
        self.funcs = {}  # local top-level name -> FuncInfo
        self.classes = {}  # local name -> ClassInfo
        self.consts = {}  # name -> ast expr (module-level single assignment)
        self.is_pkg = relpath.endswith("__init__.py")


class ClassInfo:
    def __init__(self, mod, node):
        self.mod = mod
        self.node = node
        self.name = node.name
        self.qname = f"{mod.name}.{node.name}"
        self.base_names = [src(b) for b in node.bases]
        self.methods = {}  # name -> FuncInfo
        self.attrs = {}  # class-level assignments name -> expr

    def __repr__(self):
        return f"<class {self.qname}>"


def canon_ann(t):
    """annotation text in the spelling the rules use: X | None -> Optional[X], list[...] -> List[...] (PEP 604 / 585)"""
    import re as _re

    if t is None:
        return None
    t = t.strip()
    if (t.startswith("'") and t.endswith("'")) or (t.startswith('"') and t.endswith('"')):
        t = t[1:-1]
    m = _re.match(r"^(.+?)\s*\|\s*None$", t) or _re.match(r"^None\s*\|\s*(.+)$", t)
    if m and "|" not in m.group(1):
        t = f"Optional[{m.group(1).strip()}]"
    for lo, up in (("list", "List"), ("dict", "Dict"), ("tuple", "Tuple"), ("set", "Set"), ("type", "Type")):
        t = _re.sub(rf"\b{lo}\[", f"{up}[", t)
    return t


class FuncInfo:
    def __init__(self, mod, node, cls=None, outer=None):
        self.mod = mod
        self.node = node
        self.cls = cls
        self.outer = outer  # enclosing FuncInfo for nested defs
        self.name = node.name
        if outer is not None:
            self.short = f"{outer.short}.{node.name}"
        elif cls is not None:
            self.short = f"{cls.name}.{node.name}"
        else:
            self.short = node.name
        self.qname = f"{mod.name}.{self.short}"
        self.decorators = [src(d) for d in node.decorator_list]
        a = node.args
        self.params = [x.arg for x in a.posonlyargs + a.args]
        self.kwonly = [x.arg for x in a.kwonlyargs]
        self.vararg = a.vararg.arg if a.vararg else None
        self.kwarg = a.kwarg.arg if a.kwarg else None
        self.annotations = {x.arg: (canon_ann(src(x.annotation)) if x.annotation else None) for x in a.posonlyargs + a.args + a.kwonlyargs}
        self.nested = {}  # name -> FuncInfo
        self.is_static = any(d in ("staticmethod",) for d in self.decorators)
        self.is_classmethod = any(d in ("classmethod",) for d in self.decorators)
        self.is_property = any(d == "property" or d.endswith(".setter") for d in self.decorators)

    def loc(self, node=None):
        n = node if node is not None else self.node
        return f"{self.mod.relpath}:{getattr(n, 'lineno', '?')}"

    @property
    def is_generator(self):
        for n in walk_own(self.node):
            if isinstance(n, (ast.Yield, ast.YieldFrom)):
                return True
        return False

    def __repr__(self):
        return f"<func {self.qname}>"


def walk_own(fnode):
    """Walk a function body without descending into nested defs / lambdas / classes."""
    stack = list(fnode.body)
    while stack:
        n = stack.pop()
        yield n
        for c in ast.iter_child_nodes(n):
            if isinstance(c, (ast.FunctionDef, ast.AsyncFunctionDef, ast.ClassDef, ast.Lambda)):
                continue
            stack.append(c)


def walk_with_nested_exprs(fnode):
    """Walk a function body including lambdas and comprehensions, but not nested defs/classes."""
    stack = list(fnode.body)
    while stack:
        n = stack.pop()
        yield n
        for c in ast.iter_child_nodes(n):
            if isinstance(c, (ast.FunctionDef, ast.AsyncFunctionDef, ast.ClassDef)):
                continue
            stack.append(c)


class Program:
    def __init__(self, repo="/repo"):
        self.repo = repo
        self.modules: dict[str, ModInfo] = {}
        self.funcs: dict[str, FuncInfo] = {}
        self.classes: dict[str, ClassInfo] = {}
        self.by_short: dict[str, list[FuncInfo]] = {}
        self.class_by_name: dict[str, list[ClassInfo]] = {}
        self._load()

    # ---- loading ----------------------------------------------------------
    def _load(self):
        n = 0
        for pkg in PACKAGES:
            root = os.path.join(self.repo, pkg)
            if not os.path.isdir(root):
                if pkg == "aw_cli":
                    continue
                raise AnalysisError(f"package {pkg} not found under {self.repo}")
            for dp, dn, fn in os.walk(root):
                dn[:] = [d for d in dn if d != "__pycache__"]
                for f in sorted(fn):
                    if not f.endswith(".py"):
                        continue
                    path = os.path.join(dp, f)
                    rel = os.path.relpath(path, self.repo)
                    name = rel[:-3].replace(os.sep, ".")
                    if name.endswith(".__init__"):
                        name = name[: -len(".__init__")]
                    try:
                        mi = ModInfo(name, path, rel, open(path, encoding="utf-8").read())
                    except SyntaxError as e:
                        raise AnalysisError(f"cannot parse {rel}: {e}")
                    self.modules[name] = mi
                    n += 1
        # bring a refactored tree back to the vocabulary of the rules (renamed helpers, new named constants, ...)
        from .inline import known_functions
        from .normalize import run as normalize_run

        self.normalised = normalize_run(self.modules, known_functions())
        for mi in self.modules.values():
            self._index(mi)
        # helpers that the rules do not know (introduced by a refactoring) are inlined into their callers
        from .inline import inline_new_helpers

        self.inlined = inline_new_helpers(self)
        if self.inlined:
            # what the expansion leaves behind (a loop over a dict literal's items, a conditional self-assignment ...) is
            # brought to the rules' vocabulary by the statement-level rewrites once more
            from .normalize import post_inline

            self.normalised += post_inline(self.modules)
            self.funcs, self.classes, self.by_short, self.class_by_name = {}, {}, {}, {}
            for mi in self.modules.values():
                mi.imports, mi.funcs, mi.classes, mi.consts = {}, {}, {}, {}
                self._index(mi)

    def _abs_module(self, mi, level, module):
        if level == 0:
            return module
        parts = mi.name.split(".")
        if not mi.is_pkg:
            parts = parts[:-1]
        if level > 1:
            parts = parts[: len(parts) - (level - 1)]
        base = ".".join(parts)
        return f"{base}.{module}" if module else base

    def _index(self, mi):
        for node in ast.walk(mi.tree):
            for c in ast.iter_child_nodes(node):
                c._parent = node
        mi.tree._parent = None

        def collect_imports(body, into):
            for st in body:
                if isinstance(st, ast.Import):
                    for a in st.names:
                        into[a.asname or a.name.split(".")[0]] = (a.name if a.asname else a.name.split(".")[0], None)
                elif isinstance(st, ast.ImportFrom):
                    m = self._abs_module(mi, st.level, st.module)
                    for a in st.names:
                        into[a.asname or a.name] = (m, a.name)

        collect_imports(mi.tree.body, mi.imports)
        for st in mi.tree.body:
            if isinstance(st, ast.Assign) and len(st.targets) == 1 and isinstance(st.targets[0], ast.Name):
                mi.consts[st.targets[0].id] = st.value
            elif isinstance(st, ast.AnnAssign) and isinstance(st.target, ast.Name) and st.value is not None:
                mi.consts[st.target.id] = st.value
            elif isinstance(st, (ast.FunctionDef, ast.AsyncFunctionDef)):
                self._add_func(mi, st, None, None)
            elif isinstance(st, ast.ClassDef):
                ci = ClassInfo(mi, st)
                mi.classes[st.name] = ci
                self.classes[ci.qname] = ci
                self.class_by_name.setdefault(ci.name, []).append(ci)
                for cst in st.body:
                    if isinstance(cst, (ast.FunctionDef, ast.AsyncFunctionDef)):
                        fi = self._add_func(mi, cst, ci, None)
                        # property setters share the name; keep both under distinct keys
                        key = cst.name
                        if any(d.endswith(".setter") for d in fi.decorators):
                            key = cst.name + ".setter"
                        ci.methods[key] = fi
                    elif isinstance(cst, ast.Assign) and len(cst.targets) == 1 and isinstance(cst.targets[0], ast.Name):
                        ci.attrs[cst.targets[0].id] = cst.value
                    elif isinstance(cst, ast.AnnAssign) and isinstance(cst.target, ast.Name) and cst.value is not None:
                        ci.attrs[cst.target.id] = cst.value

    def _add_func(self, mi, node, cls, outer):
        fi = FuncInfo(mi, node, cls, outer)
        if any(d.endswith(".setter") for d in fi.decorators):
            fi.short += ".setter"
            fi.qname += ".setter"
        self.funcs[fi.qname] = fi
        self.by_short.setdefault(fi.short, []).append(fi)
        if cls is None and outer is None:
            mi.funcs[node.name] = fi
        if outer is not None:
            outer.nested[node.name] = fi
        for n in walk_own(node):
            n._fn = fi
        node._fn_info = fi
        # nested defs (one level at a time)
        stack = list(node.body)
        while stack:
            n = stack.pop()
            if isinstance(n, (ast.FunctionDef, ast.AsyncFunctionDef)):
                self._add_func(mi, n, cls, fi)
                continue
            if isinstance(n, (ast.ClassDef, ast.Lambda)):
                continue
            stack.extend(ast.iter_child_nodes(n))
        return fi

    def is_inlined_helper(self, fi):
        """a helper unknown to the rules whose body was expanded into its callers (not analysed on its own)"""
        return any(h == fi.qname for _, h in getattr(self, "inlined", []))

    # ---- lookup -----------------------------------------------------------
    def module(self, name):
        if name not in self.modules:
            raise AnalysisError(f"anchor vanished: module {name}")
        return self.modules[name]

    def func(self, short, module=None):
        """Look a function up by short name ('SqliteStorage.replace', 'heartbeat_merge')."""
        c = self.by_short.get(short, [])
        if module:
            c = [f for f in c if f.mod.name == module]
        if not c and "." in short and not short.endswith(".setter"):
            # Class.method inherited from a base class of the repo (a refactoring may move a method up the hierarchy)
            cn, mn = short.split(".", 1)
            cis = [x for x in self.class_by_name.get(cn, []) if not module or x.mod.name == module]
            if len(cis) == 1 and "." not in mn:
                m = self.method(cis[0], mn)
                if m is not None:
                    return m
        if not c:
            raise AnalysisError(f"anchor vanished: function {module + '.' if module else ''}{short}")
        if len(c) > 1:
            raise AnalysisError(f"ambiguous function {short}: {[f.qname for f in c]}")
        return c[0]

    def has_func(self, short, module=None):
        c = self.by_short.get(short, [])
        if module:
            c = [f for f in c if f.mod.name == module]
        return len(c) == 1

    def cls(self, name):
        c = self.class_by_name.get(name, [])
        if not c:
            raise AnalysisError(f"anchor vanished: class {name}")
        if len(c) > 1:
            raise AnalysisError(f"ambiguous class {name}")
        return c[0]

    def bases(self, ci):
        """All (repo-resolvable) base classes, nearest first."""
        out = []
        for b in ci.base_names:
            r = self.resolve_name(ci.mod, b.split(".")[-1])
            if isinstance(r, ClassInfo):
                out.append(r)
                out.extend(self.bases(r))
        return out

    def subclasses(self, name):
        out = []
        for ci in self.classes.values():
            if any(b.name == name for b in self.bases(ci)):
                out.append(ci)
        return out

    def method(self, ci, name):
        """Method lookup through the class and its bases."""
        for c in [ci] + self.bases(ci):
            if name in c.methods:
                return c.methods[name]
        return None

    def resolve_name(self, mi, name, _depth=0):
        """Resolve a module-level name to FuncInfo / ClassInfo / ('const', mod, expr) / ('ext', dotted)."""
        if _depth > 8:
            return None
        if name in mi.funcs:
            return mi.funcs[name]
        if name in mi.classes:
            return mi.classes[name]
        if name in mi.consts:
            return ("const", mi, mi.consts[name])
        if name in mi.imports:
            m, sym = mi.imports[name]
            if sym is None:
                if m in self.modules:
                    return ("module", self.modules[m])
                return ("ext", m)
            if m in self.modules:
                tgt = self.modules[m]
                sub = f"{m}.{sym}"
                if sub in self.modules and sym not in tgt.funcs and sym not in tgt.classes and sym not in tgt.imports:
                    return ("module", self.modules[sub])
                r = self.resolve_name(tgt, sym, _depth + 1)
                if r is not None:
                    return r
                return ("ext", f"{m}.{sym}")
            return ("ext", f"{m}.{sym}")
        return None

    # ---- types of receivers -----------------------------------------------
    def local_import(self, fi, name):
        """function-local ``from x import y`` statements."""
        f = fi
        while f is not None:
            for n in walk_own(f.node):
                if isinstance(n, ast.ImportFrom):
                    for a in n.names:
                        if (a.asname or a.name) == name:
                            m = self._abs_module(fi.mod, n.level, n.module)
                            if m in self.modules:
                                return self.resolve_name(self.modules[m], a.name)
                            return ("ext", f"{m}.{a.name}")
            f = f.outer
        return None

    def lookup(self, fi, name):
        """Resolve a bare name used inside function fi."""
        f = fi
        while f is not None:
            if name in f.nested:
                return f.nested[name]
            f = f.outer
        r = self.local_import(fi, name)
        if r is not None:
            return r
        return self.resolve_name(fi.mod, name)

    def type_of(self, expr, fi, env=None, _depth=0):
        """Class name of an expression's value, or None.  Deliberately small."""
        env = env or {}
        if _depth > 6:
            return None
        busy = self.__dict__.setdefault("_typing_busy", set())
        if id(expr) in busy:
            return None
        busy.add(id(expr))
        try:
            return self._type_of(expr, fi, env, _depth)
        finally:
            busy.discard(id(expr))

    def _type_of(self, expr, fi, env, _depth):
        if isinstance(expr, ast.Name):
            if expr.id in env:
                return env[expr.id]
            if expr.id == "self" and fi.cls is not None and not fi.is_static:
                return fi.cls.name
            if expr.id == "cls" and fi.cls is not None and fi.is_classmethod:
                return "type:" + fi.cls.name
            f = fi
            while f is not None:
                if (f.short, expr.id) in PARAM_TYPES:
                    return PARAM_TYPES[(f.short, expr.id)]
                ann = f.annotations.get(expr.id)
                if ann:
                    return ann.strip("'\"")
                if expr.id in f.params and not f.annotations.get(expr.id):
                    t = self._param_type_from_callers(f, expr.id)
                    if t:
                        return t
                f = f.outer
            # single constructor assignment in the function
            assigns = [
                n
                for n in walk_own(fi.node)
                if isinstance(n, ast.Assign) and len(n.targets) == 1 and isinstance(n.targets[0], ast.Name) and n.targets[0].id == expr.id
            ]
            if len(assigns) == 1:
                return self.type_of(assigns[0].value, fi, env, _depth + 1)
            r = self.lookup(fi, expr.id)
            if isinstance(r, ClassInfo):
                return "type:" + r.name
            return None
        if isinstance(expr, ast.Attribute):
            t = self.type_of(expr.value, fi, env, _depth + 1)
            if t and (t, expr.attr) in ATTR_TYPES:
                return ATTR_TYPES[(t, expr.attr)]
            return None
        if isinstance(expr, ast.Call):
            if isinstance(expr.func, ast.Name):
                r = self.lookup(fi, expr.func.id)
                if isinstance(r, ClassInfo):
                    return r.name
                if isinstance(r, FuncInfo) and r.node.returns is not None:
                    return src(r.node.returns).strip("'\"")
            for callee in self.resolve_call(expr, fi, env):
                if callee.node.returns is not None:
                    return src(callee.node.returns).strip("'\"")
            return None
        if isinstance(expr, ast.Subscript):
            t = self.type_of(expr.value, fi, env, _depth + 1)
            if t == "Datastore":
                return "Bucket"
            if t and t.startswith("dict[") and t.endswith("]"):
                return t[5:-1]
            return None
        return None

    def _name_call_index(self):
        """callee FuncInfo -> [(caller, call)] for direct `name(...)` calls (cheap, no receiver typing needed)"""
        idx = self.__dict__.get("_name_calls")
        if idx is None:
            idx = {}
            for caller in self.funcs.values():
                for c in self.all_calls(caller):
                    if isinstance(c.func, ast.Name):
                        r = self.lookup(caller, c.func.id)
                        if isinstance(r, FuncInfo):
                            idx.setdefault(r.qname, []).append((caller, c))
            self._name_calls = idx
        return idx

    def _param_type_from_callers(self, f, pname):
        """type of an un-annotated parameter, when every direct caller passes the same class"""
        sites = self._name_call_index().get(f.qname, [])
        if not sites:
            return None
        pos = f.params.index(pname)
        types = set()
        for caller, c in sites:
            a = None
            if pos < len(c.args):
                a = c.args[pos]
            else:
                for k in c.keywords:
                    if k.arg == pname:
                        a = k.value
            if a is None:
                return None
            t = self.type_of(a, caller)
            if t is None:
                return None
            types.add(t)
        return types.pop() if len(types) == 1 else None

    def concrete_classes(self, tname):
        """Receiver class name -> list of ClassInfo it may dispatch to."""
        if tname is None:
            return []
        if tname.startswith("type:"):
            tname = tname[5:]
        tname = tname.split("[")[0]
        if tname.startswith("Optional"):
            return []
        cands = self.class_by_name.get(tname, [])
        if not cands:
            return []
        ci = cands[0]
        subs = self.subclasses(ci.name)
        if ci.name == "AbstractStorage":
            return subs
        # class-hierarchy dispatch: a value typed C may be any subclass of C
        return [ci] + [c for c in subs if c is not ci]

    def resolve_call(self, call, fi, env=None):
        """-> list of FuncInfo the call may reach ([] if unresolved / external)."""
        f = call.func
        if isinstance(f, ast.Name):
            r = self.lookup(fi, f.id)
            if isinstance(r, FuncInfo):
                return [r]
            if isinstance(r, ClassInfo):
                m = self.method(r, "__init__")
                return [m] if m else []
            if self.is_registry_value(f, fi):
                return self.registry()
            return []
        if isinstance(f, ast.Attribute):
            # module.func
            if isinstance(f.value, ast.Name):
                r = self.lookup(fi, f.value.id)
                if isinstance(r, tuple) and r[0] == "module":
                    rr = self.resolve_name(r[1], f.attr)
                    if isinstance(rr, FuncInfo):
                        return [rr]
                    if isinstance(rr, ClassInfo):
                        m = self.method(rr, "__init__")
                        return [m] if m else []
                    return []
                if isinstance(r, ClassInfo):
                    m = self.method(r, f.attr)
                    return [m] if m else []
            t = self.type_of(f.value, fi, env)
            out = []
            for ci in self.concrete_classes(t):
                m = self.method(ci, f.attr)
                if m is not None and m not in out:
                    out.append(m)
            return out
        if isinstance(f, ast.Subscript):
            # registry dispatch functions[name](*args)
            if isinstance(f.value, ast.Name):
                r = self.lookup(fi, f.value.id)
                if isinstance(r, tuple) and r[0] == "const" and f.value.id == "functions":
                    return self.registry()
            return []
        return []

    def is_registry_value(self, e, fi):
        """e denotes an entry of the query function registry: functions[k], functions.get(k), or a local bound to one"""
        from .sqlmodel import single_def

        if isinstance(e, ast.Name):
            if e.id in fi.params:
                return False
            d = single_def(fi, e.id)
            return d is not None and not isinstance(d, ast.Name) and self.is_registry_value(d, fi)
        if isinstance(e, ast.Subscript) and isinstance(e.value, ast.Name) and e.value.id == "functions":
            r = self.lookup(fi, "functions")
            return isinstance(r, tuple) and r[0] == "const"
        if isinstance(e, ast.Call) and isinstance(e.func, ast.Attribute) and e.func.attr == "get" and isinstance(e.func.value, ast.Name) and e.func.value.id == "functions" and e.args:
            r = self.lookup(fi, "functions")
            return isinstance(r, tuple) and r[0] == "const"
        return False

    def registry(self):
        """Every function decorated @q2_function(...) (the query function registry)."""
        out = []
        for fi in self.funcs.values():
            if fi.mod.name == "aw_query.functions" and any(d.startswith("q2_function") for d in fi.decorators):
                out.append(fi)
        return out

    def enclosing_function(self, node):
        return getattr(node, "_fn", None)

    def all_calls(self, fi, nested_exprs=True):
        walker = walk_with_nested_exprs if nested_exprs else walk_own
        return [n for n in walker(fi.node) if isinstance(n, ast.Call)]


def parent(node):
    return getattr(node, "_parent", None)


def enclosing_stmt(node):
    n = node
    while n is not None and not isinstance(n, ast.stmt):
        n = parent(n)
    return n
