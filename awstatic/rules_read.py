"""ORDER, LAST, PRED, LIMIT rules for get_events / get_eventcount / replace_last of the three backends."""
from __future__ import annotations

import ast
from fractions import Fraction

from .affine import Env, Form, Lit, NonAffine, lin, lit_from_forms
from .cfg import cfg_of
from .core import AnalysisError
from .model import norm, parent, walk_own, walk_with_nested_exprs
from .rules_store import _chain_wheres, _root_model, bparam, is_param_ref
from .sqlmodel import fold_str_mod, local_defs, origin, peewee_chains, single_def, sql_sites

EV_START, EV_DUR, W_START, W_END = "ev.start", "ev.dur", "w.start", "w.end"
EXPECTED_PRED = {
    ("w.start", Lit(Form({W_START: 1, EV_START: -1, EV_DUR: -1}), "<=")): "w.start <= ev.start + ev.dur",
    ("w.end", Lit(Form({EV_START: 1, W_END: -1}), "<=")): "ev.start <= w.end",
}


def pw_order(e):
    """canonical (column, direction) of a peewee order_by argument"""
    if isinstance(e, ast.UnaryOp) and isinstance(e.op, ast.USub):
        return (norm(e.operand), "DESC")
    if isinstance(e, ast.UnaryOp) and isinstance(e.op, ast.UAdd):
        return (norm(e.operand), "ASC")
    if isinstance(e, ast.Call) and isinstance(e.func, ast.Attribute) and e.func.attr in ("desc", "asc") and not e.args:
        return (norm(e.func.value), e.func.attr.upper())
    return (norm(e), "ASC")


def _site(prog, method, kind=None, table=None):
    out = [s for s in sql_sites(prog) if s.fi.short == f"SqliteStorage.{method}" and (kind is None or s.stmt.kind == kind) and (table is None or s.stmt.table == table)]
    return out


def _one_statement(ss):
    """several call sites that execute the same statement text count as one statement (-> the first site), else None"""
    if ss and len({" ".join(s.stmt.raw.split()) for s in ss}) == 1:
        return ss[0]
    return None


def keyset_rebinding(prog, rep, ss, rule="PRED"):
    """a value bound to a window placeholder that is re-bound, inside the reader, from a fetched row: the statement is re-run
    page by page with the edge moved to the last row seen (keyset pagination). That enumerates every row once only when the
    key it pages by is unique; starttime / endtime are not (no UNIQUE index; equal start instants are ordinary), so rows that
    share the boundary value are skipped (strict step) or repeated (inclusive step)"""
    bad = False
    for s in ss:
        fi = s.fi
        fetched = set()
        for n in walk_own(fi.node):
            if isinstance(n, ast.Assign) and len(n.targets) == 1 and isinstance(n.targets[0], ast.Name) and any(isinstance(c, ast.Call) and isinstance(c.func, ast.Attribute) and c.func.attr in ("execute", "fetchall", "fetchmany", "fetchone") for c in ast.walk(n.value)):
                fetched.add(n.targets[0].id)
            if isinstance(n, ast.For) and any(isinstance(c, ast.Name) and c.id in fetched for c in ast.walk(n.iter)):
                fetched |= {x.id for x in ast.walk(n.target) if isinstance(x, ast.Name)}
        for c in s.stmt.where:
            col, other = (c.left, c.right) if c.left.kind == "col" else (c.right, c.left)
            if col.kind != "col" or col.name not in ("starttime", "endtime") or other.kind != "param" or not s.bindings or other.index >= len(s.bindings):
                continue
            b = s.bindings[other.index]
            if not isinstance(b, ast.Name):
                continue
            for d in local_defs(fi, b.id):
                v = getattr(d, "value", None)
                if v is not None and any(isinstance(x, ast.Name) and x.id in fetched for x in ast.walk(v)):
                    rep.violation(rule, fi.short, f"re-binding of ?{other.index}", f"`{b.id}`, bound to `{c.text()}`, is re-bound from a fetched row (`{norm(d)[:70]}`) and the statement is run again: the read pages by {col.name}, which is not unique — events that share the boundary value with the last row of a page are skipped or returned twice", fi.loc(d))
                    bad = True
    return bad


# ---------------------------------------------------------------------------
# sort descriptors for list expressions (memory backend)


def _key_field(k):
    """lambda e: e.timestamp | lambda k: k['timestamp'] -> 'timestamp'"""
    if isinstance(k, ast.Lambda) and len(k.args.args) == 1:
        v = k.args.args[0].arg
        b = k.body
        if isinstance(b, ast.Attribute) and isinstance(b.value, ast.Name) and b.value.id == v:
            return b.attr
        if isinstance(b, ast.Subscript) and isinstance(b.value, ast.Name) and b.value.id == v and isinstance(b.slice, ast.Constant):
            return b.slice.value
        if isinstance(b, ast.BinOp) and isinstance(b.op, (ast.Add, ast.Sub)):
            l = _key_field(ast.Lambda(args=k.args, body=b.left))
            r = _key_field(ast.Lambda(args=k.args, body=b.right))
            if l is not None and r is not None:
                return f"{l}{'+' if isinstance(b.op, ast.Add) else '-'}{r}"
            return None
        if isinstance(b, ast.Tuple):
            parts = []
            for x in b.elts:
                kk = _key_field(ast.Lambda(args=k.args, body=x))
                if kk is None:
                    return None
                parts.append(kk)
            return "(" + ", ".join(parts) + ")"
    if isinstance(k, ast.Call) and norm(k.func) in ("attrgetter", "operator.attrgetter", "itemgetter", "operator.itemgetter") and len(k.args) == 1 and isinstance(k.args[0], ast.Constant):
        return k.args[0].value
    return None


class ListDesc:
    """Abstract description of a list-valued expression derived from a base list."""

    def __init__(self, base):
        self.base = base  # text of the base container
        self.key = None  # sort key field or None (insertion order)
        self.desc = False  # descending?
        self.stable_reversed = False  # ties in reverse insertion order?
        self.filters = []
        self.sliced = None  # text of slice bound
        self.pick = None  # 'first' | 'last' | None
        self.copied = None

    def clone(self):
        import copy

        return copy.copy(self)

    def newest_rule(self):
        """Which element is picked, as (key, which end of the ascending stable order)."""
        if self.key is None or self.pick is None:
            return None
        # element order of the list: ascending stable (desc=False), or reversed ascending stable (desc=True, stable_reversed=True),
        # or descending stable (sorted(reverse=True): desc=True, stable_reversed=False)
        if not self.desc:
            return (self.key, "min-first") if self.pick == "first" else (self.key, "max-last")
        if self.stable_reversed:
            return (self.key, "max-last") if self.pick == "first" else (self.key, "min-first")
        return (self.key, "max-first") if self.pick == "first" else (self.key, "min-last")


def list_desc(e, fi, env=None, _depth=0):
    """Describe expression e (over locals of fi) as ListDesc, or None if outside the idioms."""
    env = env or {}
    if _depth > 12:
        return None
    if isinstance(e, ast.Name):
        if e.id in env:
            return env[e.id].clone()
        v = single_def(fi, e.id)
        if v is not None:
            return list_desc(v, fi, env, _depth + 1)
        return None
    if isinstance(e, ast.Subscript) and norm(e.value).startswith("self.") and not isinstance(e.slice, ast.Slice):
        return ListDesc(norm(e))
    if isinstance(e, ast.IfExp):
        # both arms must describe the same ordered list (one of them may cut it)
        a, b = list_desc(e.body, fi, env, _depth + 1), list_desc(e.orelse, fi, env, _depth + 1)
        if a is None or b is None or (a.key, a.desc, a.stable_reversed, a.base) != (b.key, b.desc, b.stable_reversed, b.base):
            return None
        return a
    if isinstance(e, ast.Call):
        fn = norm(e.func)
        if fn == "sorted" and e.args:
            d = list_desc(e.args[0], fi, env, _depth + 1)
            if d is None:
                return None
            kw = {k.arg: k.value for k in e.keywords}
            key = _key_field(kw["key"]) if "key" in kw else "<natural>"
            if key is None:
                return None
            rev = kw.get("reverse")
            if rev is not None and not isinstance(rev, ast.Constant):
                return None
            d.key = key
            d.desc = bool(rev.value) if rev is not None else False
            d.stable_reversed = False
            return d
        if fn in ("list", "copy.copy", "copy.deepcopy", "deepcopy", "tuple") and len(e.args) == 1:
            d = list_desc(e.args[0], fi, env, _depth + 1)
            if d is not None and "deepcopy" in fn:
                d.copied = "deep"
            return d
        if fn == "reversed" and len(e.args) == 1:
            d = list_desc(e.args[0], fi, env, _depth + 1)
            if d is None:
                return None
            d.desc = not d.desc
            d.stable_reversed = not d.stable_reversed
            return d
        if fn in ("max", "min") and e.args:
            d = list_desc(e.args[0], fi, env, _depth + 1)
            kw = {k.arg: k.value for k in e.keywords}
            if d is None or "key" not in kw:
                return None
            key = _key_field(kw["key"])
            if key is None:
                return None
            # max() returns the first maximal element in iteration order
            d.key, d.desc, d.stable_reversed = key, (fn == "max"), False
            d.pick = "first"
            return d
        return None
    if isinstance(e, ast.Subscript):
        d = list_desc(e.value, fi, env, _depth + 1)
        if d is None:
            return None
        s = e.slice
        if isinstance(s, ast.Slice):
            if s.lower is None and s.upper is None and s.step is not None and norm(s.step) == "-1":
                d.desc = not d.desc
                d.stable_reversed = not d.stable_reversed
                return d
            if s.lower is None and s.step is None and s.upper is not None:
                d.sliced = norm(s.upper)
                return d
            return None
        if isinstance(s, ast.Constant) and s.value == 0:
            d.pick = "first"
            return d
        if norm(s) == "-1":
            d.pick = "last"
            return d
        return None
    if isinstance(e, ast.ListComp) and len(e.generators) == 1:
        g = e.generators[0]
        if isinstance(g.target, ast.Name) and isinstance(e.elt, ast.Name) and e.elt.id == g.target.id and not g.is_async:
            d = list_desc(g.iter, fi, env, _depth + 1)
            if d is None:
                return None
            d.filters = d.filters + [(g.target.id, c) for c in g.ifs]
            return d
        return None
    return None


def flow_list(fi, var, upto=None, skip_window_steps=False):
    """Abstractly execute the straight-line rebinding steps of local `var` in source order
    (steps under `if` are optional refinements: they must be order-preserving).  -> (ListDesc, steps)"""
    steps = []
    for n in walk_own(fi.node):
        if isinstance(n, ast.Assign) and len(n.targets) == 1 and isinstance(n.targets[0], ast.Name) and n.targets[0].id == var:
            steps.append(n)
    steps.sort(key=lambda n: n.lineno)
    d = None
    out = []
    for st in steps:
        if upto is not None and st.lineno >= upto:
            break
        env = {var: d} if d is not None else {}
        # another list local that is itself built in several steps (limited = events[:n] after events was sorted / filtered)
        for nm in {x.id for x in ast.walk(st.value) if isinstance(x, ast.Name) and x.id != var and x.id not in fi.params}:
            if len([y for y in local_defs(fi, nm) if isinstance(y, ast.Assign)]) > 1:
                sub, _ = flow_list(fi, nm, upto=st.lineno, skip_window_steps=skip_window_steps)
                if sub is not None:
                    env[nm] = sub
        nd = list_desc(st.value, fi, env)
        if nd is None and skip_window_steps and d is not None and any(g[1] for g in _enclosing_guards(st, fi)):
            continue  # a step that only runs when a window edge is given: irrelevant to the window-less read
        if nd is None:
            return None, st
        conditional = _under_if(st, fi)
        if conditional and d is not None:
            # optional step: must not change order / base
            if (nd.key, nd.desc, nd.stable_reversed, nd.base) != (d.key, d.desc, d.stable_reversed, d.base):
                return None, st
        d = nd
        out.append((st, conditional))
    return d, out


def _under_if(st, fi):
    p = parent(st)
    while p is not None and p is not fi.node:
        if isinstance(p, (ast.If, ast.For, ast.While, ast.Try)):
            return True
        p = parent(p)
    return False


# ---------------------------------------------------------------------------
# ORDER


def order_rule(prog, rep, rule="ORDER", windowless=False):
    rep.rule(rule, "get_events of every backend orders by the start instant, descending (optionally followed by a tie-break); the limit is applied after ordering and after the window filter")
    descs = {}
    # sqlite
    ss = _site(prog, "get_events", "select", "events")
    if len(ss) > 1 and _one_statement(ss) is not None:
        ss = ss[:1]  # the same statement text run at several sites: one statement
    if len(ss) != 1:
        rep.undecided(rule, "SqliteStorage.get_events", "SELECT events", f"{len(ss)} SELECT statements")
    else:
        s = ss[0]
        o = s.stmt.order
        descs["sqlite"] = o
        ok = bool(o) and o[0] == ("starttime", "DESC")
        rep.check(ok, rule, s.fi.short, "ORDER BY", f"ORDER BY {o}", f"events are ordered by {o or 'nothing'}, not by the start instant descending: nested or overlapping events come back in the wrong order and a limit keeps the wrong ones", s.loc(), expected="ORDER BY starttime DESC[, id ...]", found=str(o))
    # peewee
    chs = [c for c in peewee_chains(prog) if c.fi.short == "PeeweeStorage.get_events" and c.model == "EventModel"]
    if len(chs) != 1:
        rep.undecided(rule, "PeeweeStorage.get_events", "EventModel.select", f"{len(chs)} chains")
    else:
        c = chs[0]
        o = [pw_order(x) for x in c.order]
        descs["peewee"] = o
        ok = bool(o) and o[0] == ("EventModel.timestamp", "DESC")
        rep.check(ok, rule, c.fi.short, "order_by", f"order_by({o})", f"events are ordered by {o or 'nothing'}, not by timestamp descending", c.loc(), expected="order_by(EventModel.timestamp.desc())", found=str(o))
        _check_q_flow(prog, rep, c.fi, rule)
    # memory
    fi = prog.func("MemoryStorage.get_events")
    ret = [n for n in walk_own(fi.node) if isinstance(n, ast.Return) and n.value is not None and not (isinstance(n.value, ast.List) and not n.value.elts)]
    if len(ret) != 1:
        rep.undecided(rule, fi.short, "return", f"{len(ret)} non-empty returns", fi.loc())
    else:
        rv = ret[0].value
        var = None
        inner = rv
        if isinstance(rv, ast.Call) and len(rv.args) == 1:
            inner = rv.args[0]
        if isinstance(inner, ast.ListComp) and len(inner.generators) == 1 and not inner.generators[0].ifs:
            inner = inner.generators[0].iter  # an element-wise rebuild keeps order and length
        ret_slice = False
        if isinstance(inner, ast.Subscript) and isinstance(inner.slice, ast.Slice) and inner.slice.lower is None and inner.slice.step is None and inner.slice.upper is not None and isinstance(inner.value, ast.Name):
            inner, ret_slice = inner.value, True  # the limiting slice is taken in the return itself: after every step
        if isinstance(inner, ast.Name):
            var = inner.id
        d, steps = (None, None)
        if var is not None:
            d, steps = flow_list(fi, var, skip_window_steps=windowless)
        if d is None:
            rep.undecided(rule, fi.short, "list pipeline", f"cannot describe how `{var}` is built ({norm(steps) if isinstance(steps, ast.AST) else ''})", fi.loc(ret[0]))
        else:
            descs["memory"] = (d.key, "DESC" if d.desc else "ASC")
            ok = d.key == "timestamp" and d.desc
            rep.check(ok, rule, fi.short, "sort", f"sorted by {d.key} {'descending' if d.desc else 'ascending'}", f"events are sorted by {d.key} {'descending' if d.desc else 'ascending'}, not by timestamp descending", fi.loc(ret[0]), expected="timestamp descending", found=f"{d.key} {'descending' if d.desc else 'ascending'}")
            # slice after sort and after filters
            g = cfg_of(fi)
            def _has_limit_slice(v):
                return any(isinstance(x, ast.Subscript) and isinstance(x.slice, ast.Slice) and x.slice.upper is not None for x in ([v] + ([v.body, v.orelse] if isinstance(v, ast.IfExp) else [])))

            slices = [st for st, _ in steps if _has_limit_slice(st.value)]
            if not slices:
                # the limiting slice may sit in a step of another list local the result is built from
                for nm in {x.id for st, _ in steps for x in ast.walk(st.value) if isinstance(x, ast.Name)}:
                    slices += [d_ for d_ in local_defs(fi, nm) if isinstance(d_, ast.Assign) and _has_limit_slice(d_.value)]
            others = [st for st, _ in steps if st not in slices]
            if ret_slice and not slices:
                rep.ok("LIMIT", fi.short, "slice placement", "the limit slice is taken in the return statement, after sorting and after both window filters", fi.loc(ret[0]))
            elif not slices:
                rep.undecided("LIMIT", fi.short, "slice", "no limiting slice", fi.loc())
            for sl in slices:
                sn = g.node_of(sl)
                after = g.reach_avoiding([sn])
                late = [st for st in others if g.node_of(st) in after]
                rep.check(not late, "LIMIT", fi.short, "slice placement", "the limit slice comes after sorting and after both window filters", f"the list is sorted/filtered after it was cut to the limit (line {late[0].lineno if late else ''}): a limited read of a window keeps the wrong events", fi.loc(sl))
    rep.extra["order_descriptors"] = {k: str(v) for k, v in descs.items()}
    return descs


def _query_var(fi):
    """name of the local that holds the peewee query of a reader (assigned from a chain rooted at a model)"""
    for n in walk_own(fi.node):
        if isinstance(n, ast.Assign) and len(n.targets) == 1 and isinstance(n.targets[0], ast.Name):
            model, calls = _root_model(n.value)
            if model in ("EventModel", "BucketModel"):
                return n.targets[0].id
    return None


def _check_q_flow(prog, rep, fi, rule):
    """all rebindings of the query variable are where()-only refinements"""
    qv = _query_var(fi)
    for n in walk_own(fi.node):
        if qv and isinstance(n, ast.Assign) and len(n.targets) == 1 and isinstance(n.targets[0], ast.Name) and n.targets[0].id == qv:
            v = n.value
            model, calls = _root_model(v)
            if model in ("EventModel", "BucketModel"):
                continue
            if isinstance(v, ast.Call) and norm(v.func) == "self._where_range":
                continue
            if isinstance(v, ast.Call) and isinstance(v.func, ast.Attribute) and norm(v.func.value) == qv and v.func.attr == "where":
                continue
            rep.violation(rule, fi.short, f"{qv} = {norm(v)[:60]}", "the query is re-built after ordering/limiting in a way the analysis does not recognise as a pure refinement", fi.loc(n))
    wr = prog.func("PeeweeStorage._where_range")
    wq = wr.params[1] if len(wr.params) > 1 else "q"
    for n in walk_own(wr.node):
        if isinstance(n, ast.Assign) and len(n.targets) == 1 and isinstance(n.targets[0], ast.Name) and n.targets[0].id == wq:
            v = n.value
            if not (isinstance(v, ast.Call) and isinstance(v.func, ast.Attribute) and norm(v.func.value) == wq and v.func.attr == "where"):
                rep.violation(rule, wr.short, f"{wq} = {norm(v)[:60]}", "_where_range does more than add where() conjuncts", wr.loc(n))
    rets = [n for n in walk_own(wr.node) if isinstance(n, ast.Return)]
    if not rets or any(norm(r.value) != wq for r in rets if r.value is not None):
        rep.violation(rule, wr.short, "return", "_where_range does not return the refined query", wr.loc())


# ---------------------------------------------------------------------------
# LAST


def last_rule(prog, rep, rule="LAST", stream_assumption=False):
    rep.rule(rule, "replace_last addresses its target by primary key / list position obtained from a selection whose descriptor (scope, order key, direction, limit 1) equals that of get_events(limit=1) without a window; a re-selection by value equality on a non-unique column is not such a selection")
    # sqlite
    rl = _site(prog, "replace_last", "update", "events")
    ge = _site(prog, "get_events", "select", "events")
    if len(ge) > 1 and _one_statement(ge) is not None:
        ge = ge[:1]
    deleg = None
    if not rl and len(ge) == 1:
        # delegation: the target is what a limit-1 read of the same bucket returns, rewritten through replace()
        rfi0 = prog.func("SqliteStorage.replace_last")
        reads = [n for n in walk_own(rfi0.node) if isinstance(n, ast.Assign) and isinstance(n.value, ast.Call) and norm(n.value.func) == "self.get_events" and isinstance(n.targets[0], ast.Name)]
        reps = [n for n in walk_own(rfi0.node) if isinstance(n, ast.Call) and norm(n.func) == "self.replace"]
        if len(reads) == 1 and len(reps) == 1 and len(reps[0].args) == 3:
            rd, rp = reads[0].value, reps[0]
            v = reads[0].targets[0].id
            a = {["bucket_id", "limit", "starttime", "endtime"][i]: x for i, x in enumerate(rd.args) if i < 4}
            a.update({k.arg: k.value for k in rd.keywords if k.arg})
            lim = const_value(a.get("limit"), rfi0, prog) if a.get("limit") is not None else None
            ok = lim == 1 and "starttime" not in a and "endtime" not in a and is_param_ref(a.get("bucket_id"), rfi0, rfi0.params[1]) and is_param_ref(rp.args[0], rfi0, rfi0.params[1]) and norm(rp.args[1]) == f"{v}[0].id" and is_param_ref(rp.args[2], rfi0, rfi0.params[2])
            deleg = ok
            rep.check(ok, rule, rfi0.short, "target selection", "self.replace(bucket, self.get_events(bucket, 1)[0].id, event)", f"replace_last delegates as `{norm(reads[0])}; {norm(rp)}`: the rewritten event is not the one a limit-1 read of this bucket returns", rfi0.loc(rp))
            if stream_assumption and ge[0].stmt.order:
                key = ge[0].stmt.order[0][0]
                rep.check(key == "starttime", rule + "-KEY", ge[0].fi.short, "order key", "limit-1 read keyed on the start instant", f"limit-1 read keyed on `{key}`: end instants tie in heartbeat streams, so 'newest' is ambiguous", ge[0].loc())
    if deleg is not None:
        pass
    elif len(rl) != 1 or len(ge) != 1:
        rep.undecided(rule, "SqliteStorage.replace_last", "UPDATE events", f"{len(rl)} UPDATE / {len(ge)} SELECT statements")
    else:
        u, g = rl[0], ge[0]
        cons = "target selection"
        sel = None
        bad = None
        for c in u.stmt.where:
            col, other = (c.left, c.right) if c.left.kind == "col" else (c.right, c.left)
            if col.kind == "col" and col.name == "id" and other.kind == "subselect" and other.stmt.table == "events":
                sel = other.stmt
            elif col.kind == "col" and col.name not in ("id", "bucketrow"):
                bad = c
        if sel is None:
            rep.violation(rule, u.fi.short, cons, f"the row to rewrite is not addressed by primary key from an ordered selection (WHERE {', '.join(c.text() for c in u.stmt.where)})", u.loc())
        else:
            inner_eq = [c for c in sel.where if not (c.left.kind == "col" and c.left.name == "bucketrow") and not (c.right.kind == "col" and c.right.name == "bucketrow")]
            if inner_eq:
                c = inner_eq[0]
                rep.violation(rule, u.fi.short, cons, f"the target is re-selected by value (`{c.text()[:80]}`): the column is not unique, so with tied values (a zero-length heartbeat ending where the previous event ends) a different event than the one a limit-1 read returns is rewritten", u.loc(), expected=f"SELECT id FROM events WHERE <bucket> ORDER BY {g.stmt.order} LIMIT 1", found=sel.text())
            else:
                ok = sel.order == g.stmt.order and sel.limit is not None and sel.limit.kind == "number" and sel.limit.value == 1 and [x.split(".")[-1] for x in sel.columns] == ["id"]
                rep.check(ok, rule, u.fi.short, cons, f"SELECT id ... ORDER BY {sel.order} LIMIT 1 == get_events order", f"replace_last picks its target by ORDER BY {sel.order} LIMIT {sel.limit.text() if sel.limit else None} but a limit-1 read orders by {g.stmt.order}: they can name different events", u.loc(), expected=str(g.stmt.order) + " LIMIT 1", found=f"{sel.order} LIMIT {sel.limit.text() if sel.limit else None}")
                if ok and stream_assumption:
                    key = sel.order[0][0] if sel.order else None
                    rep.check(key == "starttime", rule + "-KEY", u.fi.short, "order key", "keyed on the start instant (unique under the stream assumption)", f"newest event keyed on `{key}`: end instants tie in heartbeat streams", u.loc())
        if stream_assumption and g.stmt.order:
            key = g.stmt.order[0][0]
            rep.check(key == "starttime", rule + "-KEY", g.fi.short, "order key", "limit-1 read keyed on the start instant", f"limit-1 read keyed on `{key}`: end instants tie in heartbeat streams, so 'newest' is ambiguous", g.loc())
        # N3: replace_last changes only starttime/endtime/datastr
        setcols = [c for c, _ in u.stmt.sets]
        ok = set(setcols) <= {"starttime", "endtime", "datastr"}
        rep.check(ok, rule + "-SET", u.fi.short, "SET columns", f"SET {setcols}", f"replace_last re-assigns {sorted(set(setcols) - {'starttime', 'endtime', 'datastr'})}", u.loc())
    # peewee
    chains = peewee_chains(prog)
    gl = [c for c in chains if c.fi.short == "PeeweeStorage._get_last"]
    gev = [c for c in chains if c.fi.short == "PeeweeStorage.get_events" and c.model == "EventModel"]
    rfi = prog.func("PeeweeStorage.replace_last")
    src_calls = [n for n in walk_own(rfi.node) if isinstance(n, ast.Assign) and isinstance(n.value, ast.Call) and norm(n.value.func) == "self._get_last"]
    if len(gl) != 1 or len(gev) != 1 or len(src_calls) != 1:
        # maybe inlined: a chain inside replace_last itself
        inl = [c for c in chains if c.fi.short == "PeeweeStorage.replace_last" and c.model == "EventModel" and c.op == "select"]
        if len(inl) == 1 and len(gev) == 1:
            gl = inl
        else:
            rep.undecided(rule, rfi.short, "target selection", "cannot find the selection replace_last rewrites", rfi.loc())
            gl = []
    if gl and gev:
        a, b = gl[0], gev[0]
        oa, ob = [pw_order(x) for x in a.order], [pw_order(x) for x in b.order]
        extra_w = [norm(w) for w in a.wheres if "bucket" not in norm(w)]
        ok = oa == ob and a.terminal in ("get", "first") and not extra_w
        rep.check(ok, rule, rfi.short, "target selection", f"_get_last: order_by({oa}).get() == get_events order", f"replace_last picks its target by order_by({oa}){'.where(' + extra_w[0] + ')' if extra_w else ''} but a limit-1 read orders by {ob}", a.loc(), expected=str(ob), found=str(oa))
        if stream_assumption:
            okk = bool(oa) and oa[0] == ("EventModel.timestamp", "DESC")
            rep.check(okk, rule + "-KEY", rfi.short, "order key", "keyed on the start instant", f"newest event keyed on {oa}", a.loc())
        recv = src_calls[0].targets[0].id if src_calls and isinstance(src_calls[0].targets[0], ast.Name) else "e"
        assigned = sorted({t.attr for n in walk_own(rfi.node) if isinstance(n, ast.Assign) for t in n.targets if isinstance(t, ast.Attribute) and isinstance(t.value, ast.Name) and t.value.id == recv})
        ok = set(assigned) <= {"timestamp", "duration", "datastr"}
        rep.check(ok, rule + "-SET", rfi.short, "assigned fields", f"{assigned}", f"replace_last re-assigns {sorted(set(assigned) - {'timestamp', 'duration', 'datastr'})} of the stored row", rfi.loc())
    # memory
    mfi = prog.func("MemoryStorage.replace_last")
    gfi = prog.func("MemoryStorage.get_events")
    calls = [n for n in walk_own(mfi.node) if isinstance(n, ast.Call) and norm(n.func) == "self.replace"]
    if len(calls) != 1 or len(calls[0].args) != 3:
        rep.undecided(rule, mfi.short, "target selection", "replace_last does not end in one self.replace(bucket, id, event)", mfi.loc())
    else:
        idarg = calls[0].args[1]
        d = None
        if isinstance(idarg, ast.Attribute) and idarg.attr == "id":
            d = list_desc(idarg.value, mfi)
        if d is None:
            rep.undecided(rule, mfi.short, "target selection", f"cannot describe how `{norm(idarg)}` is selected", mfi.loc(calls[0]))
        else:
            # descriptor of get_events(limit=1): final list then [:1] -> first
            ret = [n for n in walk_own(gfi.node) if isinstance(n, ast.Return) and n.value is not None and not (isinstance(n.value, ast.List) and not n.value.elts)]
            gd = None
            if len(ret) == 1:
                inner = ret[0].value.args[0] if isinstance(ret[0].value, ast.Call) and len(ret[0].value.args) == 1 else ret[0].value
                if isinstance(inner, ast.ListComp) and len(inner.generators) == 1 and not inner.generators[0].ifs:
                    inner = inner.generators[0].iter  # an element-wise rebuild keeps order and length
                if isinstance(inner, ast.Subscript) and isinstance(inner.slice, ast.Slice) and inner.slice.lower is None and inner.slice.step is None and inner.slice.upper is not None and isinstance(inner.value, ast.Name):
                    inner = inner.value  # the limiting slice taken in the return
                if isinstance(inner, ast.Name):
                    gd, _ = flow_list(gfi, inner.id, skip_window_steps=True)
            if gd is None:
                rep.undecided(rule, gfi.short, "limit-1 read", "cannot describe get_events' list pipeline", gfi.loc())
            else:
                gd.pick = "first"
                a, b = d.newest_rule(), gd.newest_rule()
                bp_a, bp_b = bparam(mfi), bparam(gfi)
                base_ok = d.base == f"self.db[{bp_a}]" and gd.base == f"self.db[{bp_b}]" and not d.filters
                ok = a is not None and a == b and base_ok
                rep.check(ok, rule, mfi.short, "target selection", f"replace_last target {a} == limit-1 read {b}", f"replace_last picks {a} of {d.base} but a limit-1 read returns {b} of {gd.base}: with tied keys they are different events", mfi.loc(calls[0]), expected=str(b), found=str(a))
                if stream_assumption:
                    rep.check(a is not None and a[0] == "timestamp", rule + "-KEY", mfi.short, "order key", "keyed on the start instant", f"newest event keyed on {a}", mfi.loc(calls[0]))
            ev = calls[0].args[2]
            rep.check(is_param_ref(ev, mfi, "event"), rule + "-SET", mfi.short, "replacement", "the caller's event replaces the target", f"replace is given `{norm(ev)}`", mfi.loc(calls[0]))


# ---------------------------------------------------------------------------
# PRED


def _rename(form, mapping):
    t = {}
    for a, c in form.terms.items():
        t[mapping.get(a, a)] = t.get(mapping.get(a, a), 0) + c
    return Form(t, form.const)


def _guard_param(test, fi, names=("starttime", "endtime")):
    """truthiness / `is not None` test of a window parameter -> (name, polarity)"""
    if isinstance(test, ast.Name) and test.id in names:
        return test.id, True
    if isinstance(test, ast.UnaryOp) and isinstance(test.op, ast.Not):
        r = _guard_param(test.operand, fi, names)
        if r:
            return r[0], not r[1]
    if isinstance(test, ast.Compare) and len(test.ops) == 1 and isinstance(test.left, ast.Name) and test.left.id in names and isinstance(test.comparators[0], ast.Constant) and test.comparators[0].value is None:
        if isinstance(test.ops[0], ast.IsNot):
            return test.left.id, True
        if isinstance(test.ops[0], ast.Is):
            return test.left.id, False
    return None


def _enclosing_guards(node, fi):
    """window-parameter guards (`if starttime:`) around a statement"""
    out = []
    n, p = node, parent(node)
    while p is not None and p is not fi.node:
        if isinstance(p, ast.If):
            g = _guard_param(p.test, fi)
            if g is not None:
                if n in p.body:
                    out.append(g)
                elif n in p.orelse:
                    out.append((g[0], not g[1]))
        n, p = p, parent(p)
    return out


def _comp_pred(cond, var, fi, rep, where):
    """condition of a comprehension over events -> set of (guard, Lit)"""
    mapping = {f"{var}.timestamp": EV_START, f"{var}.duration": EV_DUR, "starttime": W_START, "endtime": W_END}
    out = set()
    conj = [cond]
    while conj:
        c = conj.pop()
        if isinstance(c, ast.BoolOp) and isinstance(c.op, ast.And):
            conj += c.values
            continue
        guard = None
        body = c
        if isinstance(c, ast.BoolOp) and isinstance(c.op, ast.Or) and len(c.values) == 2:
            g = _guard_param(c.values[0], fi)
            if g is not None and g[1] is False:
                guard = g[0]
                body = c.values[1]
        if isinstance(body, ast.Compare) and len(body.ops) > 1:
            left = body.left
            for op, right in zip(body.ops, body.comparators):
                conj.append(ast.Compare(left=left, ops=[op], comparators=[right]))
                left = right
            if guard is not None:
                raise NonAffine("guarded chained comparison")
            continue
        from .affine import literal

        lit = literal(body, Env(fi, None, inline_locals=False))
        lit = Lit(_rename(lit.form, mapping), lit.op)
        out.add(("w.start" if guard == "starttime" else "w.end" if guard == "endtime" else None, lit))
    return out


def _judge_pred(found, rep, rule, fn, cons, loc, allow_prefilter=True):
    """found: set of (guard, Lit).  Compare with EXPECTED_PRED (+ optional 24 h pre-filter)."""
    exp = set(EXPECTED_PRED)
    ok = True
    left = set(found)
    for e in exp:
        if e in left:
            left.discard(e)
        else:
            ok = False
            # explain: same atoms, other relation?
            near = [f for f in found if f[1].form.atoms() == e[1].form.atoms() or f[0] == e[0]]
            rep.violation(rule, fn, f"{cons}: {EXPECTED_PRED[e]}", f"window conjunct `{EXPECTED_PRED[e]}` (applied when {e[0]} is given) is missing or altered; found {[f'{g}: {l!r}' for g, l in near] or 'nothing comparable'}", loc, expected=f"{e[0]}: {e[1]!r}", found=str([f"{g}: {l!r}" for g, l in sorted(found, key=str)]))
    for g, l in list(left):
        # 24 h pre-filter: w.start - c <= ev.start, c >= 24h, guarded by w.start
        f = l.form
        if allow_prefilter and g == "w.start" and l.op in ("<=", "<") and f.atoms() == {W_START, EV_START} and f.coef(W_START) == 1 and f.coef(EV_START) == -1 and -f.const >= 86400:
            left.discard((g, l))
            rep.ok(rule, fn, f"{cons}: 24 h pre-filter", f"{l!r} (events are at most 24 h long)", loc)
    for g, l in left:
        ok = False
        rep.violation(rule, fn, f"{cons}: extra conjunct", f"additional window conjunct {g}: {l!r} excludes events the property requires", loc)
    if ok:
        rep.ok(rule, fn, cons, "window predicate is exactly {w.start <= ev.start + ev.dur, ev.start <= w.end}, both non-strict", loc)
    return ok


def pred_memory(prog, rep, rule="PRED"):
    out = {}
    for m in ("get_events", "get_eventcount"):
        fi = prog.func(f"MemoryStorage.{m}")
        found = set()
        try:
            comps = [n for n in walk_with_nested_exprs(fi.node) if isinstance(n, (ast.ListComp, ast.GeneratorExp)) and len(n.generators) == 1 and n.generators[0].ifs]
            for c in comps:
                g = c.generators[0]
                if not isinstance(g.target, ast.Name):
                    continue
                # only comprehensions over the bucket's events
                var = g.target.id
                st = c
                while not isinstance(st, ast.stmt):
                    st = parent(st)
                guards = [gg for gg in _enclosing_guards(st, fi)]
                for cond in g.ifs:
                    for gd, lit in _comp_pred(cond, var, fi, rep, fi.loc(c)):
                        if gd is None:
                            pos = [x for x in guards if x[1]]
                            if len(pos) == 1:
                                gd = "w.start" if pos[0][0] == "starttime" else "w.end"
                        found.add((gd, lit))
            if not found:
                found = _loop_pred(fi, rep, rule)
        except NonAffine as e:
            rep.undecided(rule, fi.short, "window predicate", f"not affine: {e}", fi.loc())
            continue
        out[m] = found
        _judge_pred(found, rep, rule, fi.short, "window predicate", fi.loc(), allow_prefilter=False)
    return out


def _loop_pred(fi, rep, rule):
    """window predicate of a filter written as a loop with `continue` (or a guarded count/append): the literals on the
    paths that keep the event, each taken with the window edges it is guarded by"""
    from .paths import summarize

    loops = [n for n in walk_own(fi.node) if isinstance(n, ast.For) and isinstance(n.target, ast.Name)]
    found = set()
    for lp in loops:
        var = lp.target.id
        mapping = {f"{var}.timestamp": EV_START, f"{var}.duration": EV_DUR, "starttime": W_START, "endtime": W_END}
        try:
            sums, _g = summarize(fi=None, body=lp.body, env=Env(fi, None, inline_locals=False), limit=200)
        except Exception:
            continue
        kept = [s_ for s_ in sums if s_.kind == "return" and (s_.calls or s_.writes or any(isinstance(x, ast.AugAssign) for x in s_.stmts))]
        if not kept or len(kept) == len(sums):
            continue
        per_path = []
        for s_ in kept:
            ws = any(t in ("starttime", "starttime is not None") and p_ for t, p_ in s_.opaque)
            we = any(t in ("endtime", "endtime is not None") and p_ for t, p_ in s_.opaque)
            fs = set()
            for l in s_.lits:
                l2 = Lit(_rename(l.form, mapping), l.op)
                if W_START in l2.form.atoms():
                    fs.add(("w.start", l2))
                elif W_END in l2.form.atoms():
                    fs.add(("w.end", l2))
            per_path.append((ws, we, fs))
        full = [fs for ws, we, fs in per_path if ws and we]
        if not full:
            continue
        acc = set.intersection(*full)
        # a kept path on which an edge is given must carry that edge's conjunct(s)
        for ws, we, fs in per_path:
            want = {x for x in acc if (x[0] == "w.start" and ws) or (x[0] == "w.end" and we)}
            if not want <= fs:
                rep.violation(rule, fi.short, "window predicate: every kept path filters", f"a path keeps the event although a window edge is given and its conjunct is not tested ({sorted(map(str, want - fs))})", fi.loc(lp))
        found |= acc
    return found


def _sqlite_window_binding(e, fi, prog, which):
    """`p.timestamp() * S if p else SENTINEL` -> (param, scale, sentinel value)"""
    if isinstance(e, ast.Name):
        v = single_def(fi, e.id)
        if v is not None:
            e = v
    # (p.timestamp() * S if p else None) or SENTINEL : the `or` also replaces a timestamp of exactly 0.0 (the epoch), which is
    # falsy -- harmless when the sentinel is 0 too, wrong otherwise
    if isinstance(e, ast.BoolOp) and isinstance(e.op, ast.Or) and len(e.values) == 2 and isinstance(e.values[0], ast.IfExp):
        inner = e.values[0]
        gi = _guard_param(inner.test, fi)
        if gi is not None:
            none_side = inner.orelse if gi[1] else inner.body
            if isinstance(none_side, ast.Constant) and none_side.value is None:
                sent_ = const_value(e.values[1], fi, prog)
                r = _sqlite_window_binding(ast.IfExp(test=inner.test, body=inner.body if gi[1] else e.values[1], orelse=e.values[1] if gi[1] else inner.orelse), fi, prog, which)
                if r is not None and sent_ not in (0, 0.0):
                    return r[0], r[1], ("falsy-zero", sent_)
                return r
    if not isinstance(e, ast.IfExp):
        return None
    g = _guard_param(e.test, fi)
    if g is None:
        return None
    body, other = (e.body, e.orelse) if g[1] else (e.orelse, e.body)
    scale = None
    if isinstance(body, ast.BinOp) and isinstance(body.op, ast.Mult):
        for a, b in ((body.left, body.right), (body.right, body.left)):
            if norm(a) == f"{g[0]}.timestamp()":
                scale = const_value(b, fi, prog)
    sent = const_value(other, fi, prog)
    return g[0], scale, sent


def const_value(e, fi, prog):
    """Evaluate an integer constant expression (literals, module constants, + - * **)."""
    if isinstance(e, ast.Constant) and isinstance(e.value, (int, float)) and not isinstance(e.value, bool):
        return e.value
    if isinstance(e, ast.Name):
        if fi is not None:
            from .trace import resolve

            v = resolve(e, fi)
            if v is not e:
                return const_value(v, fi, prog)
        r = prog.lookup(fi, e.id) if fi is not None else None
        if isinstance(r, tuple) and r[0] == "const":
            return const_value(r[2], None, prog) if not isinstance(r[2], ast.Name) else None
        return None
    if isinstance(e, ast.Attribute) and fi is not None and fi.cls is not None and isinstance(e.value, ast.Name) and e.value.id in ("self", "cls", fi.cls.name) and e.attr in fi.cls.attrs:
        return const_value(fi.cls.attrs[e.attr], None, prog)
    if isinstance(e, ast.BinOp):
        a, b = const_value(e.left, fi, prog), const_value(e.right, fi, prog)
        if a is None or b is None:
            return None
        try:
            if isinstance(e.op, ast.Add):
                return a + b
            if isinstance(e.op, ast.Sub):
                return a - b
            if isinstance(e.op, ast.Mult):
                return a * b
            if isinstance(e.op, ast.Pow) and abs(b) < 200:
                return a**b
        except Exception:
            return None
    if isinstance(e, ast.UnaryOp) and isinstance(e.op, ast.USub):
        v = const_value(e.operand, fi, prog)
        return -v if v is not None else None
    return None


def pred_sqlite(prog, rep, rule="PRED", scale_expected=1000000):
    out = {}
    for m in ("get_events", "get_eventcount"):
        ss = _site(prog, m, "select", "events")
        fn = f"SqliteStorage.{m}"
        if len(ss) > 1 and keyset_rebinding(prog, rep, ss, rule):
            continue
        if len(ss) > 1 and _one_statement(ss) is not None:
            # the same statement text at several call sites: the window bindings of every site must be the same expressions
            same = all(s_.bindings is not None and ss[0].bindings is not None and len(s_.bindings) == len(ss[0].bindings) for s_ in ss)
            if same:
                widx = [c.right.index if c.left.kind == "col" else c.left.index for c in ss[0].stmt.where if (c.left.kind == "col" and c.left.name in ("starttime", "endtime") and c.right.kind == "param") or (c.right.kind == "col" and c.right.name in ("starttime", "endtime") and c.left.kind == "param")]
                same = all(norm(s_.bindings[i]) == norm(ss[0].bindings[i]) for s_ in ss for i in widx)
            if same:
                ss = ss[:1]
        if len(ss) != 1:
            rep.undecided(rule, fn, "SELECT events", f"{len(ss)} SELECT statements")
            continue
        s = ss[0]
        found = set()
        bad = False
        for c in s.stmt.where:
            col, other, op = (c.left, c.right, c.op) if c.left.kind == "col" else (c.right, c.left, {"<": ">", ">": "<", "<=": ">=", ">=": "<=", "=": "=", "==": "=="}.get(c.op, c.op))
            if col.kind == "col" and col.name == "bucketrow":
                continue
            if col.kind != "col" or col.name not in ("starttime", "endtime") or other.kind != "param" or op not in ("<", "<=", ">", ">="):
                rep.violation(rule, fn, f"conjunct {c.text()[:60]}", "conjunct of the window query is not a comparison of starttime/endtime with a window edge", s.loc())
                bad = True
                continue
            b = _sqlite_window_binding(s.bindings[other.index], s.fi, prog, col.name) if s.bindings else None
            if b is None:
                rep.undecided(rule, fn, f"binding of ?{other.index}", f"`{norm(s.bindings[other.index])[:80]}` is not of the form `p.timestamp() * S if p else SENTINEL`", s.loc())
                bad = True
                continue
            p, scale, sent = b
            if isinstance(sent, tuple) and sent[0] == "falsy-zero":
                rep.violation(rule, fn, f"binding of ?{other.index}", f"`{norm(s.bindings[other.index])[:80]}` picks the sentinel with `or`: a window edge exactly at the Unix epoch converts to 0.0, which is falsy, so it is replaced by the sentinel {sent[1]} (= no edge): the read returns / counts every event although the window ends at the epoch", s.loc())
                bad = True
                continue
            evf = Form({EV_START: 1}) if col.name == "starttime" else Form({EV_START: 1, EV_DUR: 1})
            wf = Form.atom(W_START if p == "starttime" else W_END)
            lit = lit_from_forms(evf, op, wf)
            found.add(("w.start" if p == "starttime" else "w.end", lit))
            rep.check(scale == scale_expected, "CODEC", fn, f"scale of ?{other.index}", f"window edge scaled by {scale}", f"window edge `{p}` is scaled by {scale} but rows are written with {scale_expected}", s.loc())
            # neutral sentinel when the edge is absent
            if lit.form.coef(wf and (W_START if p == "starttime" else W_END)) != 0:
                # ev.x >= sentinel (lower bound) needs sentinel <= 0; ev.x <= sentinel (upper) needs sentinel >= the largest
                # instant a datetime can hold (year 9999), scaled as the column is
                lower = (op in (">", ">="))
                oks = sent is not None and ((lower and sent <= 0) or (not lower and scale is not None and sent >= 253402300800 * scale))
                rep.check(oks, rule, fn, f"sentinel of ?{other.index}", f"absent edge binds neutral {sent}", f"when `{p}` is not given the placeholder is bound to {sent}, which is not neutral for `{c.text()}`: events are filtered although no edge was asked for", s.loc())
        out[m] = found
        if not bad:
            _judge_pred(found, rep, rule, fn, "window predicate", s.loc(), allow_prefilter=False)
    return out


def _dt_plus_duration_ok(prog, rep, rule):
    fi = prog.func("dt_plus_duration")
    t = norm(fi.node)
    ok = "julianday" in t and "2440587.5" in t and "86400.0" in t and "'unixepoch'" in t and norm(fi.node.body[-1]).startswith("return peewee.fn.strftime(")
    rets = [n for n in walk_own(fi.node) if isinstance(n, ast.Return)]
    shape = False
    if len(rets) == 1 and isinstance(rets[0].value, ast.Call) and len(rets[0].value.args) == 3:
        from .trace import deep as _deep

        mid = _deep(rets[0].value.args[1], fi)
        p0, p1 = fi.params[0], fi.params[1]
        # (julianday(dt) - 2440587.5) * 86400.0 + duration
        if isinstance(mid, ast.BinOp) and isinstance(mid.op, ast.Add):
            for a, b in ((mid.left, mid.right), (mid.right, mid.left)):
                if isinstance(b, ast.Name) and b.id == p1 and norm(a) == f"(peewee.fn.julianday({p0}) - 2440587.5) * 86400.0":
                    shape = True
    rep.check(ok and shape, rule, fi.short, "julianday arithmetic", "strftime(fmt, (julianday(dt) - 2440587.5) * 86400.0 + duration, 'unixepoch') == dt + duration", "dt_plus_duration no longer denotes dt + duration (unix epoch julian day 2440587.5, 86400 s/day)", fi.loc())
    return ok and shape


def pred_peewee(prog, rep, rule="PRED"):
    fi = prog.func("PeeweeStorage._where_range")
    found = set()
    okdt = _dt_plus_duration_ok(prog, rep, rule)
    mapping = {"EventModel.timestamp": EV_START, "EventModel.duration": EV_DUR, "starttime": W_START, "endtime": W_END}
    wq = fi.params[1] if len(fi.params) > 1 else "q"
    try:
        for n in walk_own(fi.node):
            if isinstance(n, ast.Call) and isinstance(n.func, ast.Attribute) and n.func.attr == "where" and norm(n.func.value) == wq:
                st = n
                while not isinstance(st, ast.stmt):
                    st = parent(st)
                guards = [g for g in _enclosing_guards(st, fi) if g[1]]
                gd = None
                if len(guards) == 1:
                    gd = "w.start" if guards[0][0] == "starttime" else "w.end"
                for a in n.args:
                    cmp = _rewrite_dtplus(a)
                    from .affine import literal

                    lit = literal(cmp, Env(fi, None, inline_locals=False))
                    found.add((gd, Lit(_rename(lit.form, mapping), lit.op)))
    except NonAffine as e:
        rep.undecided(rule, fi.short, "window predicate", f"not affine: {e}", fi.loc())
        return {}
    # rebinding of the edges must preserve the instant
    for n in walk_own(fi.node):
        if isinstance(n, ast.Assign) and len(n.targets) == 1 and isinstance(n.targets[0], ast.Name) and n.targets[0].id in ("starttime", "endtime"):
            nm = n.targets[0].id
            ok = norm(n.value) in (f"{nm}.astimezone(timezone.utc)", f"{nm}.astimezone(datetime.timezone.utc)")
            rep.check(ok, rule, fi.short, f"{nm} = ...", "re-bound to the same instant in UTC", f"window edge re-bound to `{norm(n.value)}`", fi.loc(n))
    _judge_pred(found, rep, rule, fi.short, "window predicate", fi.loc(), allow_prefilter=True)
    # the stored instants are UTC ISO text compared as text: each edge must be converted to UTC before it is compared
    g = cfg_of(fi)
    for nm in ("starttime", "endtime"):
        uses = [n for n in walk_own(fi.node) if isinstance(n, ast.Call) and isinstance(n.func, ast.Attribute) and n.func.attr == "where" and any(isinstance(x, ast.Name) and x.id == nm for x in ast.walk(n))]
        conv = [n for n in walk_own(fi.node) if isinstance(n, ast.Assign) and len(n.targets) == 1 and norm(n.targets[0]) == nm and norm(n.value) in (f"{nm}.astimezone(timezone.utc)", f"{nm}.astimezone(datetime.timezone.utc)")]
        cn = {g.node_of(c) for c in conv}

        def _edge(u, v, lab, nm=nm, cn=cn):
            if v in cn:
                return False
            if lab and lab[0] == "cond" and norm(lab[1]) in (nm, f"{nm} is not None") and lab[2] is False:
                return False  # the edge is absent on this path: it cannot reach a comparison of that edge
            return True

        reach = g.reach_filtered(g.entry, _edge)
        ok = bool(uses) and bool(conv) and all(g.node_of(u) not in reach for u in uses)
        rep.check(ok, rule, fi.short, f"{nm} normalised to UTC", f"{nm} = {nm}.astimezone(timezone.utc) dominates its comparisons", f"`{nm}` is compared with the stored (UTC, text) instants without first being converted to UTC: a window edge given with another UTC offset is compared by its wall-clock digits, so the window shifts by that offset", fi.loc())
    # both readers use it with the edges in order
    for m in ("get_events", "get_eventcount"):
        f2 = prog.func(f"PeeweeStorage.{m}")
        cs = [c for c in walk_own(f2.node) if isinstance(c, ast.Call) and norm(c.func) == "self._where_range"]
        ok = len(cs) == 1 and len(cs[0].args) == 3 and is_param_ref(cs[0].args[1], f2, "starttime") and is_param_ref(cs[0].args[2], f2, "endtime") and not cs[0].keywords
        if len(cs) == 1 and cs[0].keywords:
            kw = {k.arg: k.value for k in cs[0].keywords}
            ok = all(is_param_ref(kw.get(k), f2, k) for k in ("starttime", "endtime") if k in kw) and len(cs[0].args) + len(kw) == 3
        rep.check(ok, rule, f2.short, "self._where_range(q, starttime, endtime)", "window edges forwarded in order", "the window edges are not forwarded to _where_range in order (or not at all)", f2.loc())
        # the result of _where_range must be what is executed / counted
        if ok:
            asg = parent(cs[0])
            kept = False
            if isinstance(asg, ast.Assign) and isinstance(asg.targets[0], ast.Name):
                g2 = cfg_of(f2)
                after = g2.reach_avoiding([g2.node_of(asg)])
                kept = any(isinstance(x, ast.Name) and x.id == asg.targets[0].id and isinstance(x.ctx, ast.Load) for nid in after if g2.nodes[nid].ast is not None and g2.nodes[nid].ast is not asg for x in ast.walk(g2.nodes[nid].ast if not isinstance(g2.nodes[nid].ast, (ast.If, ast.While, ast.For)) else (g2.nodes[nid].ast.test if not isinstance(g2.nodes[nid].ast, ast.For) else g2.nodes[nid].ast.iter)))
            kept = kept or (isinstance(asg, ast.Attribute) and asg.attr in ("count", "execute", "get")) or isinstance(asg, ast.Return)
            rep.check(kept, rule, f2.short, "q = self._where_range(...)", "refined query kept", "the refined query is discarded", f2.loc(cs[0]))
    return {"_where_range": found}


def _rewrite_dtplus(e):
    """replace dt_plus_duration(a, b) by a + b inside a comparison"""

    class R(ast.NodeTransformer):
        def visit_Call(self, n):
            self.generic_visit(n)
            if isinstance(n.func, ast.Name) and n.func.id == "dt_plus_duration" and len(n.args) == 2:
                return ast.BinOp(left=n.args[0], op=ast.Add(), right=n.args[1])
            return n

    from .model import src as _src

    return R().visit(ast.parse(_src(e), mode="eval").body)


# ---------------------------------------------------------------------------
# LIMIT


def limit_rule(prog, rep, rule="LIMIT"):
    rep.rule(rule, "limit == 0 returns an empty list; a negative limit reaches an unbounded form (sys.maxsize slice / SQL LIMIT -1); a positive limit is applied as given, after ordering and filtering")
    for cname in ("MemoryStorage", "SqliteStorage", "PeeweeStorage"):
        fi = prog.func(f"{cname}.get_events")
        g = cfg_of(fi)
        zero = [n for n in g.nodes if n.kind == "branch" and isinstance(n.ast, ast.Compare) and norm(n.ast) in ("limit == 0", "0 == limit")]
        okz = False
        if len(zero) == 1:
            for v, lab in g.succ[zero[0].id]:
                if lab and lab[2] is True:
                    a = g.nodes[v].ast
                    if isinstance(a, ast.Return) and isinstance(a.value, ast.List) and not a.value.elts:
                        okz = True
            # every other return is dominated by the test (so limit == 0 can not fall through to a non-empty answer)
            others = [n for n in g.nodes if n.kind == "stmt" and isinstance(n.ast, ast.Return) and not (isinstance(n.ast.value, ast.List) and not n.ast.value.elts)]
            falses = {v for v, lab in g.succ[zero[0].id] if lab and lab[2] is False}
            for o in others:
                if not g.dominates(zero[0].id, o.id):
                    okz = False
        rep.check(okz, rule, fi.short, "limit == 0", "returns [] and dominates every other return", "a read with limit 0 does not return an empty list on every path", fi.loc())
        # negative -> unbounded
        if cname == "MemoryStorage":
            slices = [n for n in walk_own(fi.node) if isinstance(n, ast.Subscript) and isinstance(n.slice, ast.Slice) and n.slice.upper is not None and norm(n.slice.upper) == "limit" and n.slice.lower is None]
            if not slices:
                rep.undecided(rule, fi.short, "[:limit]", "no slice by limit", fi.loc())
                continue
            sn = g.node_of(slices[-1])

            def sign(lab):
                """what an edge says about the sign of limit: 'neg' / 'nonneg' / None"""
                if not lab or lab[0] != "cond":
                    return None
                t, pol = norm(lab[1]), lab[2]
                if t in ("limit < 0", "0 > limit", "limit <= -1"):
                    return "neg" if pol else "nonneg"
                if t in ("limit >= 0", "0 <= limit", "limit > -1"):
                    return "nonneg" if pol else "neg"
                if t in ("limit > 0", "0 < limit", "limit >= 1"):
                    return "nonneg" if pol else "neg"  # limit == 0 never gets here (rule above)
                return None

            unbounded = {g.node_of(d) for d in local_defs(fi, "limit") if isinstance(d, ast.Assign) and norm(d.value) in ("sys.maxsize", "None", "len(events)")}
            r1 = g.reach_filtered(g.entry, lambda u, v, lab: sign(lab) != "nonneg" and v not in unbounded)
            okn = sn not in r1
            # the slice may also be one arm of a conditional expression that tests the sign
            x_, pr_ = slices[-1], parent(slices[-1])
            while pr_ is not None and not isinstance(pr_, ast.stmt):
                if isinstance(pr_, ast.IfExp):
                    arm = True if any(x_ is y for y in ast.walk(pr_.body)) else (False if any(x_ is y for y in ast.walk(pr_.orelse)) else None)
                    if arm is not None and sign(("cond", pr_.test, arm)) == "nonneg":
                        okn = True
                x_, pr_ = pr_, parent(pr_)
            rep.check(okn, rule, fi.short, "negative limit", "limit < 0 never reaches [:limit] as it is (re-bound to an unbounded value, or the slice is skipped)", "a negative limit reaches events[:limit] unchanged (Python drops elements from the end) or is not handled: 'negative -> all' is broken", fi.loc(slices[0]))
            rets_ = [n.id for n in g.nodes if n.kind == "stmt" and isinstance(n.ast, ast.Return) and not (isinstance(n.ast.value, ast.List) and not n.ast.value.elts)]
            r2 = g.reach_filtered(g.entry, lambda u, v, lab: sign(lab) != "neg" and v != sn)
            rep.check(not any(x in r2 for x in rets_), rule, fi.short, "positive limit applied", "every path with a positive limit passes the [:limit] slice", "a read with a positive limit can return without cutting the list to the limit", fi.loc(slices[0]))
            for d in local_defs(fi, "limit"):
                if isinstance(d, ast.Assign) and g.node_of(d) not in unbounded:
                    rep.violation(rule, fi.short, f"{norm(d)[:40]}", f"`{norm(d)[:60]}` changes the limit the caller asked for", fi.loc(d))
                elif isinstance(d, ast.Assign):
                    r3 = g.reach_filtered(g.entry, lambda u, v, lab: sign(lab) != "neg")
                    rep.check(g.node_of(d) not in r3, rule, fi.short, f"{norm(d)[:40]}", "limit re-bound to an unbounded form only when negative", f"`{norm(d)[:60]}` replaces a non-negative limit", fi.loc(d))
        elif cname == "SqliteStorage":
            ss = _site(prog, "get_events", "select", "events")
            if len(ss) == 1:
                s = ss[0]
                lim = s.stmt.limit
                ok = lim is not None and lim.kind == "param" and norm(s.bindings[lim.index]) == "limit"
                rep.check(ok, rule, fi.short, "LIMIT ?", "bound to limit", f"LIMIT is {lim.text() if lim else 'absent'}{' bound to ' + norm(s.bindings[lim.index]) if lim is not None and lim.kind == 'param' else ''}: the limit asked for is not applied", s.loc())
                _limit_rebinds(fi, rep, rule, allowed_neg=("-1",))
            elif len(ss) > 1:
                # several sites: each binds LIMIT to the limit asked for, or to -1 where the limit cannot be positive
                def _pos_ok(u, v, lab):
                    if lab and lab[0] == "cond":
                        t, pol = norm(lab[1]), lab[2]
                        if t in ("limit > 0", "0 < limit", "limit >= 1") and pol is False:
                            return False
                        if t in ("limit < 0", "0 > limit", "limit <= -1", "limit <= 0") and pol is True:
                            return False
                    return True

                reach_pos = g.reach_filtered(g.entry, _pos_ok)  # nodes a positive limit can reach
                for s in ss:
                    lim = s.stmt.limit
                    b_ = norm(s.bindings[lim.index]) if lim is not None and lim.kind == "param" and s.bindings and lim.index < len(s.bindings) else None
                    in_nonpos_arm = False
                    x_, pr_ = s.call, parent(s.call)
                    while pr_ is not None and not isinstance(pr_, ast.stmt):
                        if isinstance(pr_, ast.IfExp):
                            t_ = norm(pr_.test)
                            in_else = any(x_ is y for y in ast.walk(pr_.orelse))
                            in_body = any(x_ is y for y in ast.walk(pr_.body))
                            if (in_else and t_ in ("limit > 0", "0 < limit", "limit >= 1")) or (in_body and t_ in ("limit < 0", "0 > limit", "limit <= -1", "limit <= 0")):
                                in_nonpos_arm = True
                        x_, pr_ = pr_, parent(pr_)
                    ok = b_ == "limit" or (b_ == "-1" and (in_nonpos_arm or g.node_of(s.call) not in reach_pos))
                    rep.check(ok, rule, fi.short, f"LIMIT ? (line {s.call.lineno})", "bound to limit, or to -1 where the limit is not positive", f"LIMIT is {lim.text() if lim else 'absent'}{' bound to ' + str(b_) if b_ else ''} at a call site a positive limit can reach: the limit asked for is not applied", s.loc())
                _limit_rebinds(fi, rep, rule, allowed_neg=("-1",))
            else:
                rep.undecided(rule, fi.short, "LIMIT ?", "no SELECT statement on events found", fi.loc())
        else:
            chs = [c for c in peewee_chains(prog) if c.fi is fi and c.model == "EventModel"]
            if len(chs) == 1:
                c = chs[0]
                ok = c.limit is not None and norm(c.limit) == "limit"
                rep.check(ok, rule, fi.short, ".limit(limit)", "bound to limit", f".limit({norm(c.limit) if c.limit is not None else ''}): the limit asked for is not applied", c.loc())
                _limit_rebinds(fi, rep, rule, allowed_neg=("-1", "None"))


def _limit_rebinds(fi, rep, rule, allowed_neg):
    """`limit` may only be re-bound to an unbounded form, and only under limit < 0"""
    g = cfg_of(fi)
    for d in local_defs(fi, "limit"):
        ok = False
        if isinstance(d, ast.Assign) and norm(d.value) in allowed_neg:
            n = g.node_of(d)
            # reachable only through the true edge of a `limit < 0` test
            reach = g.reach_filtered(g.entry, lambda u, v, lab: not (lab and lab[0] == "cond" and lab[2] is True and norm(lab[1]) in ("limit < 0", "0 > limit", "limit <= -1")))
            ok = n not in reach
        rep.check(ok, rule, fi.short, f"{norm(d)[:40]}", "limit re-bound to an unbounded form only when negative", f"`{norm(d)[:60]}` changes the limit the caller asked for", fi.loc(d))


def count_source(prog, rep, rule="COUNT-SOURCE"):
    """get_eventcount answers from the stored rows, every time"""
    from .trace import deep

    rep.rule(rule, "every value get_eventcount returns is computed in that call from the bucket's stored events: the first column of the row fetched from the SELECT count(*) statement (sqlite), <query>.count() (peewee), len() of the filtered list (memory); a counter kept on the side can drift from the rows (no-op deletes, upserts counted as inserts)")
    for cname in ("SqliteStorage", "PeeweeStorage", "MemoryStorage"):
        fi = prog.func(f"{cname}.get_eventcount")
        rets = [r for r in walk_own(fi.node) if isinstance(r, ast.Return) and r.value is not None]
        if not rets:
            rep.violation(rule, fi.short, "return", "get_eventcount returns nothing", fi.loc())
            continue
        for r in rets:
            v = deep(r.value, fi)
            t = norm(v)
            if cname == "SqliteStorage":
                ok = isinstance(v, ast.Subscript) and isinstance(v.slice, ast.Constant) and v.slice.value == 0 and ".fetchone()" in t and ".execute(" in t
            elif cname == "PeeweeStorage":
                ok = isinstance(v, ast.Call) and isinstance(v.func, ast.Attribute) and v.func.attr == "count" and not v.args
            else:
                ok = (isinstance(v, ast.Call) and norm(v.func) in ("len", "sum")) or isinstance(v, ast.Name)
            rep.check(ok, rule, fi.short, f"return {norm(r.value)[:40]}", "computed from the stored rows in this call", f"`{norm(r)[:80]}` (= `{t[:80]}`) is not the count of the bucket's stored events computed by this call: a count kept elsewhere (cache, counter) agrees with a read only as long as every write path keeps it exact", fi.loc(r))
