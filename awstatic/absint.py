"""E5 — small abstract interpreter for the query front-end (C17).

Domain: per variable a set of *must* facts
    STR NOTNONE NONE   — kind
    NE EMPTY           — non-empty / empty (strings and sequences)
    RS                 — right-stripped: empty or ends in a non-space character
    DEC                — every character satisfies str.isdecimal (vacuous for the empty string)
    CHAR DECCHAR       — a single character (of a `for c in s` loop) / known decimal
    LEN2               — a sequence of at least two elements
    CLS:<Name>         — holds exactly that token class
The state at a program point is a *set of environments* (disjunctive, capped), so that the correlation
between the token class returned by a scanner, the emptiness of its token and the shape of the remainder is
kept: callee results are disjunctive tuple summaries computed per abstract argument.  Loops are iterated to a
fixpoint (environments are finite sets of facts); when the cap is exceeded environments are intersected.
The interpreter looks for *may-raise sites*: constant-index subscripts (IndexError unless NE), int(s)
(ValueError unless NE and DEC), attribute calls on a possibly-None class (AttributeError unless NOTNONE/CLS).
"""
from __future__ import annotations

import ast

from .core import AnalysisError
from .model import ClassInfo, FuncInfo, norm

CAP = 48
TOP = frozenset()


def F(*xs):
    return frozenset(xs)


EMPTY_STR = F("STR", "NOTNONE", "EMPTY", "RS", "LS", "DEC")


class Site:
    def __init__(self, fi, node, kind, need, have, ctx):
        self.fi, self.node, self.kind, self.need, self.have, self.ctx = fi, node, kind, need, have, ctx

    def key(self):
        return (self.fi.short, norm(self.node), self.kind)


class Result:
    """what one abstract call produced"""

    def __init__(self):
        self.returns = []  # list of abstract values (facts frozenset, or tuple of such, nested)
        self.raises = set()  # explicit exception class names
        self.unsafe = []  # Site
        self.safe = []  # Site


class Interp:
    def __init__(self, prog, qtypes):
        self.prog = prog
        self.qtypes = qtypes  # list of ClassInfo in scanner order
        self.memo = {}
        self.unsafe = {}
        self.safe = {}
        self.stack = []
        self.notes = []

    # ---- calls ---------------------------------------------------------------
    def call(self, fi, args):
        key = (fi.qname, tuple(args))
        if key in self.memo:
            return self.memo[key]
        if key in self.stack:
            r = Result()  # recursion: callee result unknown (TOP), no sites re-reported
            r.returns = [TOP]
            return r
        self.stack.append(key)
        res = Result()
        env = {}
        params = [p for p in fi.params if p not in ("self", "cls")]
        for i, p in enumerate(params):
            env[p] = args[i] if i < len(args) else TOP
        ctx = _Ctx(fi, res)
        out = self.block(fi.node.body, [env], ctx)
        if out:
            res.returns.append(F("NONE"))
        self.stack.pop()
        self.memo[key] = res
        return res

    # ---- statements ----------------------------------------------------------
    def block(self, stmts, states, ctx):
        for s in stmts:
            if not states:
                break
            states = self.stmt(s, states, ctx)
        return states

    def cap(self, states):
        uniq = []
        seen = set()
        for e in states:
            k = tuple(sorted((a, tuple(sorted(map(str, _flat(b))))) for a, b in e.items()))
            if k not in seen:
                seen.add(k)
                uniq.append(e)
        if len(uniq) <= CAP:
            return uniq
        # intersect
        keys = set.intersection(*[set(e) for e in uniq])
        merged = {}
        for k in keys:
            vals = [e[k] for e in uniq]
            if all(isinstance(v, frozenset) for v in vals):
                merged[k] = frozenset.intersection(*vals)
            else:
                merged[k] = TOP
        return [merged]

    def stmt(self, s, states, ctx):
        if isinstance(s, ast.Assign):
            out = []
            for env in states:
                for v, env2 in self.eval_multi(s.value, env, ctx):
                    e = dict(env2)
                    for t in s.targets:
                        self.bind(t, v, e, ctx)
                        if isinstance(t, ast.Subscript) and isinstance(t.value, ast.Name) and t.value.id in e:
                            e[t.value.id] = F("NOTNONE", "NE")  # container[key] = value: now non-empty
                    out.append(e)
            return self.cap(out)
        if isinstance(s, ast.AnnAssign):
            if s.value is None:
                return states
            out = []
            for env in states:
                for v, env2 in self.eval_multi(s.value, env, ctx):
                    e = dict(env2)
                    self.bind(s.target, v, e, ctx)
                    out.append(e)
            return self.cap(out)
        if isinstance(s, ast.AugAssign):
            out = []
            for env in states:
                v = self.eval(s.value, env, ctx)
                e = dict(env)
                if isinstance(s.target, ast.Name):
                    cur = env.get(s.target.id, TOP)
                    new = set()
                    if isinstance(cur, frozenset) and isinstance(v, frozenset) and isinstance(s.op, ast.Add):
                        if "STR" in cur or "STR" in v or "CHAR" in v:
                            new |= {"STR", "NOTNONE"}
                            if "NE" in cur or "NE" in v or "CHAR" in v:
                                new.add("NE")
                            if "DEC" in cur and ("DECCHAR" in v or "DEC" in v):
                                new.add("DEC")
                        elif ("GE1" in cur and "GE0" in v) or ("GE0" in cur and "GE1" in v):
                            new |= {"NOTNONE", "GE1", "GE0"}
                        elif "GE0" in cur and "GE0" in v:
                            new |= {"NOTNONE", "GE0"}
                    e[s.target.id] = frozenset(new)
                out.append(e)
            return self.cap(out)
        if isinstance(s, ast.Expr):
            out = []
            for env in states:
                for v, env2 in self.eval_multi(s.value, env, ctx):
                    c = s.value
                    if isinstance(c, ast.Call) and isinstance(c.func, ast.Attribute) and c.func.attr in ("append", "add", "insert") and isinstance(c.func.value, ast.Name) and c.func.value.id in env2:
                        env2 = dict(env2)
                        env2[c.func.value.id] = F("NOTNONE", "NE")
                    out.append(env2)
            return self.cap(out)
        if isinstance(s, ast.Return):
            for env in states:
                if s.value is None:
                    ctx.res.returns.append(F("NONE"))
                else:
                    for v in self.return_values(s.value, env, ctx):
                        ctx.res.returns.append(v)
            return []
        if isinstance(s, ast.Raise):
            name = None
            if s.exc is not None:
                name = norm(s.exc.func) if isinstance(s.exc, ast.Call) else norm(s.exc)
            for env in states:
                if s.exc is not None:
                    self.eval(s.exc, env, ctx)
            if ctx.handlers:
                # caught by an enclosing handler of this function?
                pass
            ctx.res.raises.add(name or "<re-raise>")
            return []
        if isinstance(s, ast.If):
            t_states, f_states = [], []
            for env in states:
                for e, pol in self.branch(s.test, env, ctx):
                    (t_states if pol else f_states).append(e)
            a = self.block(s.body, self.cap(t_states), ctx)
            b = self.block(s.orelse, self.cap(f_states), ctx)
            return self.cap(a + b)
        if isinstance(s, ast.While):
            exit_states = []
            cur = states
            seen = []
            for _ in range(8):
                t_states, f_states = [], []
                for env in cur:
                    for e, pol in self.branch(s.test, env, ctx):
                        (t_states if pol else f_states).append(e)
                exit_states += f_states
                if not t_states:
                    break
                lc = _Loop()
                ctx.loops.append(lc)
                body_out = self.block(s.body, self.cap(t_states), ctx)
                ctx.loops.pop()
                exit_states += lc.breaks
                dead = _dead_at_head(s)
                nxt = self.cap([{k: (TOP if k in dead else v) for k, v in e.items()} for e in body_out + lc.continues])
                sig = _sig(nxt)
                if sig in seen:
                    break
                seen.append(sig)
                cur = nxt
            else:
                # not converged: weaken everything assigned in the loop
                exit_states = [self._weaken(e, s) for e in exit_states + cur]
            return self.cap(exit_states)
        if isinstance(s, ast.For):
            return self.for_loop(s, states, ctx)
        if isinstance(s, ast.Try):
            hc = _Handlers([norm(h.type) if h.type is not None else None for h in s.handlers])
            ctx.handlers.append(hc)
            before_raises = set(ctx.res.raises)
            out = self.block(s.body, states, ctx)
            ctx.handlers.pop()
            # handlers run from (a weakening of) the entry states
            hout = []
            for h in s.handlers:
                hs = [self._weaken(e, s) for e in states]
                hout += self.block(h.body, hs, ctx)
            out = self.block(s.orelse, out, ctx)
            out = self.cap(out + hout)
            if s.finalbody:
                out = self.block(s.finalbody, out, ctx)
            return out
        if isinstance(s, (ast.With,)):
            return self.block(s.body, states, ctx)
        if isinstance(s, ast.Break):
            if ctx.loops:
                ctx.loops[-1].breaks += states
            return []
        if isinstance(s, ast.Continue):
            if ctx.loops:
                ctx.loops[-1].continues += states
            return []
        if isinstance(s, (ast.Pass, ast.FunctionDef, ast.Import, ast.ImportFrom, ast.Global, ast.Nonlocal, ast.Assert, ast.Delete, ast.ClassDef)):
            return states
        raise AnalysisError(f"E5: statement {type(s).__name__} not modelled ({ctx.fi.loc(s)})")

    def _weaken(self, env, node):
        assigned = {n.id for n in ast.walk(node) if isinstance(n, ast.Name) and isinstance(n.ctx, ast.Store)}
        return {k: (TOP if k in assigned else v) for k, v in env.items()}

    def for_loop(self, s, states, ctx):
        # `for t in qtypes:` is unrolled over the literal class table
        if isinstance(s.iter, ast.Name) and s.iter.id == "qtypes" and isinstance(s.target, ast.Name):
            cur = states
            exits = []
            for ci in self.qtypes:
                if not cur:
                    break
                lc = _Loop()
                ctx.loops.append(lc)
                st = [dict(e, **{s.target.id: F("NOTNONE", f"CLS:{ci.name}")}) for e in cur]
                out = self.block(s.body, st, ctx)
                ctx.loops.pop()
                exits += lc.breaks
                cur = self.cap(out + lc.continues)
            return self.cap(exits + self.block(s.orelse, cur, ctx))
        exits = []
        elem_facts = []
        for env in states:
            it = self.eval(s.iter, env, ctx)
            elem_facts.append(it)
        cur = states
        exits += states  # zero iterations
        broke = []  # states leaving through `break`: they skip the else clause
        seen = []
        for _ in range(6):
            lc = _Loop()
            ctx.loops.append(lc)
            st = []
            for env in cur:
                it = self.eval(s.iter, env, ctx)
                e = dict(env)
                elem = TOP
                if isinstance(it, frozenset) and "STR" in it:
                    elem = F("CHAR", "STR", "NOTNONE", "NE")
                if isinstance(s.iter, ast.Call) and norm(s.iter.func) == "range" and 1 <= len(s.iter.args) <= 2 and not s.iter.keywords:
                    # range(n): 0 <= i ; range(a, n): a <= i
                    lo = self.eval(s.iter.args[0], env, ctx) if len(s.iter.args) == 2 else F("NOTNONE", "GE0")
                    elem = frozenset({"NOTNONE"} | ({x for x in ("GE0", "GE1") if isinstance(lo, frozenset) and x in lo}))
                self.bind_loop_target(s.target, elem, it, e, s.iter)
                st.append(e)
            out = self.block(s.body, self.cap(st), ctx)
            ctx.loops.pop()
            broke += lc.breaks
            exits += out + lc.continues
            nxt = self.cap(out + lc.continues)
            sig = _sig(nxt)
            if sig in seen or not nxt:
                break
            seen.append(sig)
            cur = nxt
        return self.cap(broke + (self.block(s.orelse, self.cap(exits), ctx) if s.orelse else exits))

    def bind_loop_target(self, t, elem, it, env, iter_expr):
        if isinstance(t, ast.Name):
            env[t.id] = elem
        elif isinstance(t, ast.Tuple):
            # enumerate(string): (i, char)
            is_enum = isinstance(iter_expr, ast.Call) and norm(iter_expr.func) == "enumerate"
            for i, x in enumerate(t.elts):
                if isinstance(x, ast.Name):
                    if is_enum and i == 1:
                        env[x.id] = F("CHAR", "STR", "NOTNONE", "NE")
                    else:
                        env[x.id] = TOP

    def bind(self, t, v, env, ctx):
        if isinstance(t, ast.Name):
            env[t.id] = v if isinstance(v, (frozenset, tuple)) else TOP
        elif isinstance(t, (ast.Tuple, ast.List)):
            if isinstance(v, tuple) and len(v) == len(t.elts):
                for tt, vv in zip(t.elts, v):
                    self.bind(tt, vv, env, ctx)
            else:
                for tt in t.elts:
                    self.bind(tt, TOP, env, ctx)
        # attribute / subscript stores carry no tracked facts

    # ---- conditions ----------------------------------------------------------
    def branch(self, test, env, ctx):
        """-> list of (env', polarity) covering the feasible outcomes"""
        if isinstance(test, ast.BoolOp) and isinstance(test.op, ast.And):
            outs = []
            cur = [env]
            for v in test.values:
                nxt = []
                for e in cur:
                    for e2, pol in self.branch(v, e, ctx):
                        if pol:
                            nxt.append(e2)
                        else:
                            outs.append((e2, False))
                cur = nxt
            return outs + [(e, True) for e in cur]
        if isinstance(test, ast.BoolOp) and isinstance(test.op, ast.Or):
            outs = []
            cur = [env]
            for v in test.values:
                nxt = []
                for e in cur:
                    for e2, pol in self.branch(v, e, ctx):
                        if pol:
                            outs.append((e2, True))
                        else:
                            nxt.append(e2)
                cur = nxt
            return outs + [(e, False) for e in cur]
        if isinstance(test, ast.UnaryOp) and isinstance(test.op, ast.Not):
            return [(e, not pol) for e, pol in self.branch(test.operand, env, ctx)]
        if isinstance(test, ast.Compare) and len(test.ops) > 1:
            parts = []
            left = test.left
            for op, right in zip(test.ops, test.comparators):
                parts.append(ast.Compare(left=left, ops=[op], comparators=[right]))
                left = right
            return self.branch(ast.BoolOp(op=ast.And(), values=parts), env, ctx)
        # evaluate for side effects (sites inside the test)
        self.eval(test, env, ctx)
        out = []
        for pol in (True, False):
            e = self.refine(test, env, pol)
            if e is not None:
                out.append((e, pol))
        return out

    def refine(self, test, env, pol):
        e = dict(env)

        def facts(n):
            v = env.get(n, TOP)
            return v if isinstance(v, frozenset) else TOP

        if isinstance(test, ast.Constant):
            return e if bool(test.value) == pol else None
        if isinstance(test, ast.Name):
            f = facts(test.id)
            if ("TRUE" in f and not pol) or ("FALSE" in f and pol):
                return None
            if "TRUE" in f or "FALSE" in f:
                return e
            if pol:
                if "EMPTY" in f or "NONE" in f:
                    return None
                e[test.id] = f | {"NE", "NOTNONE"} if not any(x.startswith("CLS:") for x in f) else f | {"NOTNONE"}
            else:
                if "NE" in f or any(x.startswith("CLS:") for x in f):
                    return None
                if "STR" in f:
                    e[test.id] = (f - {"NE"}) | {"EMPTY", "RS", "LS", "DEC"}
            return e
        if isinstance(test, ast.Compare) and len(test.ops) == 1:
            l, op, r = test.left, test.ops[0], test.comparators[0]
            # len(x) <op> k
            if isinstance(l, ast.Call) and norm(l.func) == "len" and len(l.args) == 1 and isinstance(l.args[0], ast.Name) and isinstance(r, ast.Constant) and isinstance(r.value, int):
                x = l.args[0].id
                f = facts(x)
                k = r.value
                empty_when = None  # polarity under which x is empty; the other one means non-empty
                if (isinstance(op, ast.Eq) and k == 0) or (isinstance(op, ast.Lt) and k == 1) or (isinstance(op, ast.LtE) and k == 0):
                    empty_when = True
                elif (isinstance(op, ast.Gt) and k == 0) or (isinstance(op, ast.GtE) and k == 1) or (isinstance(op, ast.NotEq) and k == 0):
                    empty_when = False
                elif isinstance(op, ast.Lt) and k == 2:
                    # len < 2 : nothing about emptiness; the false branch gives NE
                    if not pol:
                        e[x] = f | {"NE"}
                    return e
                if empty_when is not None:
                    if pol == empty_when:
                        if "NE" in f:
                            return None
                        e[x] = (f - {"NE"}) | {"EMPTY"} | ({"RS", "LS", "DEC"} if "STR" in f else set())
                    else:
                        if "EMPTY" in f:
                            return None
                        e[x] = f | {"NE"}
                return e
            # i == 0 / i != 0 / i > 0 / i >= 1 / i < 1 / i <= 0 for an integer known to be >= 0
            if isinstance(l, ast.Name) and isinstance(r, ast.Constant) and isinstance(r.value, int) and not isinstance(r.value, bool) and r.value in (0, 1):
                f = facts(l.id)
                k = r.value
                zero_when = None
                if (isinstance(op, ast.Eq) and k == 0) or (isinstance(op, ast.LtE) and k == 0) or (isinstance(op, ast.Lt) and k == 1):
                    zero_when = True
                elif (isinstance(op, ast.NotEq) and k == 0) or (isinstance(op, ast.Gt) and k == 0) or (isinstance(op, ast.GtE) and k == 1):
                    zero_when = False
                if zero_when is not None and "GE0" in f:
                    if pol == zero_when:
                        if "GE1" in f:
                            return None
                    else:
                        e[l.id] = f | {"GE1"}
                return e
            # x is None / x is not None
            if isinstance(l, ast.Name) and isinstance(r, ast.Constant) and r.value is None and isinstance(op, (ast.Is, ast.IsNot, ast.Eq, ast.NotEq)):
                f = facts(l.id)
                is_none = pol if isinstance(op, (ast.Is, ast.Eq)) else not pol
                if is_none:
                    if "NOTNONE" in f:
                        return None
                    e[l.id] = F("NONE")
                else:
                    if "NONE" in f:
                        return None
                    e[l.id] = f | {"NOTNONE"}
                return e
            # x ==/is/!=/is not <token class>
            if isinstance(l, ast.Name) and isinstance(r, ast.Name) and r.id in {c.name for c in self.qtypes} and isinstance(op, (ast.Is, ast.IsNot, ast.Eq, ast.NotEq)):
                f = facts(l.id)
                same = pol if isinstance(op, (ast.Is, ast.Eq)) else not pol
                cls = [x for x in f if x.startswith("CLS:")]
                if same:
                    if "NONE" in f or (cls and cls[0] != f"CLS:{r.id}"):
                        return None
                    e[l.id] = F("NOTNONE", f"CLS:{r.id}")
                else:
                    if cls and cls[0] == f"CLS:{r.id}":
                        return None
                return e
            return e
        if isinstance(test, ast.Call) and isinstance(test.func, ast.Attribute) and isinstance(test.func.value, ast.Name):
            x, m = test.func.value.id, test.func.attr
            f = facts(x)
            if m == "isdecimal" and "CHAR" in f:
                if pol:
                    e[x] = f | {"DECCHAR"}
                return e
            return e
        if isinstance(test, ast.Call) and norm(test.func) == "isinstance" and len(test.args) == 2 and isinstance(test.args[0], ast.Name) and norm(test.args[1]) == "str":
            x = test.args[0].id
            if pol:
                e[x] = facts(x) | {"STR", "NOTNONE"}
            return e
        return e

    # ---- expressions ---------------------------------------------------------
    def site(self, ctx, node, kind, need, have):
        ok = need <= have
        s = Site(ctx.fi, node, kind, need, have, " > ".join(k[0].split(".")[-2] + "." + k[0].split(".")[-1] if "." in k[0] else k[0] for k in self.stack[-3:]))
        d = self.safe if ok else self.unsafe
        # a site is unsafe if it is unsafe in ANY analysed context
        key = s.key()
        if not ok:
            self.unsafe.setdefault(key, s)
            self.safe.pop(key, None)
        elif key not in self.unsafe:
            self.safe.setdefault(key, s)
        return ok

    def eval_multi(self, e, env, ctx):
        """evaluate an expression that may yield several disjuncts (calls with disjunctive summaries)"""
        if isinstance(e, ast.Call):
            r = self.eval_call(e, env, ctx)
            if r is not None:
                return [(v, env) for v in r] or []
        if isinstance(e, ast.IfExp):
            # one disjunct per feasible outcome of the test (x = A if c else None keeps A's facts on its own path)
            out = []
            for env2, pol in self.branch(e.test, env, ctx):
                out += self.eval_multi(e.body if pol else e.orelse, env2, ctx)
            return out
        return [(self.eval(e, env, ctx), env)]

    def return_values(self, e, env, ctx):
        """values of a return expression; splits on the emptiness of `tok` for (tok, s[len(tok):])"""
        if isinstance(e, ast.Tuple) and len(e.elts) == 2 and isinstance(e.elts[0], ast.Name) and isinstance(e.elts[1], ast.Subscript) and isinstance(e.elts[1].slice, ast.Slice):
            tok = e.elts[0].id
            sl = e.elts[1].slice
            if sl.lower is not None and norm(sl.lower) == f"len({tok})" and sl.upper is None and isinstance(e.elts[1].value, ast.Name):
                f = env.get(tok, TOP)
                s = env.get(e.elts[1].value.id, TOP)
                if isinstance(f, frozenset) and isinstance(s, frozenset):
                    outs = []
                    if "NE" not in f:
                        outs.append(((f - {"NE"}) | {"EMPTY", "STR", "NOTNONE", "RS", "DEC"}, s))
                    if "EMPTY" not in f:
                        outs.append((f | {"NE", "STR", "NOTNONE"}, _suffix(s)))
                    return outs
        vals = self.eval_multi(e, env, ctx) if isinstance(e, ast.Call) else [(self.eval(e, env, ctx), env)]
        return [v for v, _ in vals]

    def eval(self, e, env, ctx):
        if e is None:
            return TOP
        if isinstance(e, ast.Constant):
            if e.value is None:
                return F("NONE")
            if isinstance(e.value, str):
                if e.value == "":
                    return EMPTY_STR
                f = {"STR", "NOTNONE", "NE"}
                if not e.value[-1].isspace():
                    f.add("RS")
                if not e.value[0].isspace():
                    f.add("LS")
                if e.value.isdecimal():
                    f.add("DEC")
                return frozenset(f)
            if isinstance(e.value, bool):
                return F("NOTNONE", "TRUE") if e.value else F("NOTNONE", "FALSE")
            if isinstance(e.value, int):
                return F("NOTNONE", "GE1", "GE0") if e.value >= 1 else (F("NOTNONE", "GE0") if e.value == 0 else F("NOTNONE"))
            return F("NOTNONE")
        if isinstance(e, ast.Name):
            if e.id in env:
                return env[e.id]
            if e.id in {c.name for c in self.qtypes}:
                return F("NOTNONE", f"CLS:{e.id}")
            return TOP
        if isinstance(e, ast.Tuple):
            return tuple(self.eval(x, env, ctx) for x in e.elts)
        if isinstance(e, ast.Subscript):
            base = self.eval(e.value, env, ctx)
            sl = e.slice
            if isinstance(sl, ast.Slice):
                for part in (sl.lower, sl.upper, sl.step):
                    if part is not None:
                        self.eval(part, env, ctx)
                if not isinstance(base, frozenset):
                    return TOP
                if sl.upper is None and sl.step is None:
                    # suffix
                    if sl.lower is None or (isinstance(sl.lower, ast.Constant) and sl.lower.value == 0):
                        return base
                    return _suffix(base)
                out = {"NOTNONE"}
                if "STR" in base:
                    out.add("STR")
                if sl.lower is None and sl.step is None and sl.upper is not None:
                    up = self.eval(sl.upper, env, ctx)
                    if isinstance(up, frozenset) and "GE1" in up and "NE" in base:
                        out.add("NE")
                return frozenset(out)
            self.eval(sl, env, ctx)
            if isinstance(sl, ast.UnaryOp) and isinstance(sl.op, ast.USub) and isinstance(sl.operand, ast.Constant) and isinstance(sl.operand.value, int):
                sl = ast.Constant(value=-sl.operand.value)
            if isinstance(sl, ast.Constant) and isinstance(sl.value, int) and isinstance(e.ctx, ast.Load):
                b = base if isinstance(base, frozenset) else TOP
                if isinstance(base, tuple):
                    if -len(base) <= sl.value < len(base):
                        return base[sl.value]
                tracked = isinstance(e.value, ast.Name) and e.value.id in env
                if tracked or "STR" in b:
                    need = F("NE") if sl.value in (0, -1) else F("NE", f"LEN>{abs(sl.value)}")
                    have = set(b)
                    if "LEN2" in b:
                        have.add("NE")
                    self.site(ctx, e, "IndexError", need, frozenset(have))
                    if "STR" in b:
                        return F("CHAR", "STR", "NOTNONE", "NE")
                return TOP
            return TOP
        if isinstance(e, ast.BinOp):
            a, b = self.eval(e.left, env, ctx), self.eval(e.right, env, ctx)
            if isinstance(e.op, ast.Add) and isinstance(a, frozenset) and isinstance(b, frozenset) and ("STR" in a or "STR" in b):
                out = {"STR", "NOTNONE"}
                if "NE" in a or "NE" in b:
                    out.add("NE")
                return frozenset(out)
            if isinstance(e.op, ast.Add) and isinstance(a, frozenset) and isinstance(b, frozenset):
                if ("GE1" in a and "GE0" in b) or ("GE0" in a and "GE1" in b):
                    return F("NOTNONE", "GE1", "GE0")
                if "GE0" in a and "GE0" in b:
                    return F("NOTNONE", "GE0")
            if isinstance(e.op, ast.Sub) and isinstance(a, frozenset) and "GE1" in a and isinstance(e.right, ast.Constant) and e.right.value == 1:
                return F("NOTNONE", "GE0")
            return F("NOTNONE")
        if isinstance(e, ast.BoolOp) or (isinstance(e, ast.UnaryOp) and isinstance(e.op, ast.Not)) or (isinstance(e, ast.Compare) and len(e.ops) > 1):
            # a test used as a value: evaluated with short-circuiting; TRUE / FALSE when only one outcome is feasible
            pols = {pol for _, pol in self.branch(e, env, ctx)}
            if isinstance(e, ast.BoolOp):
                # `a and b` yields one of its operands: a truth value only when the operands are tests themselves
                boolish = all(isinstance(v, ast.Compare) or (isinstance(v, ast.UnaryOp) and isinstance(v.op, ast.Not)) for v in e.values)
                if not boolish:
                    return F("NOTNONE")
            return F("NOTNONE", "TRUE") if pols == {True} else F("NOTNONE", "FALSE") if pols == {False} else F("NOTNONE")
        if isinstance(e, (ast.Compare, ast.BoolOp, ast.UnaryOp)):
            for x in ast.iter_child_nodes(e):
                if isinstance(x, ast.expr):
                    self.eval(x, env, ctx)
            if isinstance(e, ast.Compare) and len(e.ops) == 1:
                pols1 = {pol for pol in (True, False) if self.refine(e, env, pol) is not None}
                if len(pols1) == 1:
                    _tf = F("NOTNONE", "TRUE") if pols1 == {True} else F("NOTNONE", "FALSE")
                else:
                    _tf = F("NOTNONE")
            else:
                _tf = F("NOTNONE")
            # separator tests `s[0] == ","` only see the separator if s has no leading white space
            if isinstance(e, ast.Compare) and len(e.ops) == 1 and isinstance(e.left, ast.Subscript) and isinstance(e.left.value, ast.Name) and isinstance(e.left.slice, ast.Constant) and e.left.slice.value == 0 and isinstance(e.comparators[0], ast.Constant) and e.comparators[0].value in (",", ":", ";", "="):
                b = env.get(e.left.value.id, TOP)
                self.site(ctx, e, "Spacing", F("LS"), b if isinstance(b, frozenset) else TOP)
            return _tf
        if isinstance(e, ast.Attribute):
            r = self.eval(e.value, env, ctx)
            # attribute of a value that is None on this path (e.g. the token class of a blank token)
            if isinstance(r, frozenset) and "NONE" in r and isinstance(e.value, ast.Name):
                self.site(ctx, e, "AttributeError", F("NOTNONE"), r)
            return TOP
        if isinstance(e, ast.Call):
            r = self.eval_call(e, env, ctx)
            if r is None:
                return TOP
            if len(r) == 1:
                return r[0]
            return _meet(r)
        if isinstance(e, (ast.List, ast.Set)):
            for x in e.elts:
                self.eval(x, env, ctx)
            return F("NOTNONE", "EMPTY") if not e.elts else F("NOTNONE", "NE")
        if isinstance(e, ast.Dict):
            for x in e.values:
                self.eval(x, env, ctx)
            return F("NOTNONE", "EMPTY") if not e.keys else F("NOTNONE", "NE")
        if isinstance(e, (ast.JoinedStr,)):
            for v in e.values:
                if isinstance(v, ast.FormattedValue):
                    self.eval(v.value, env, ctx)
            return F("STR", "NOTNONE")
        if isinstance(e, ast.IfExp):
            self.eval(e.test, env, ctx)
            return _meet([self.eval(e.body, env, ctx), self.eval(e.orelse, env, ctx)])
        if isinstance(e, (ast.ListComp, ast.GeneratorExp, ast.SetComp, ast.DictComp, ast.Lambda, ast.Starred, ast.FormattedValue)):
            return TOP
        return TOP

    def eval_call(self, c, env, ctx):
        """-> list of disjunct values, or None when not modelled"""
        f = c.func
        fname = norm(f)
        args = [self.eval(a, env, ctx) for a in c.args]
        for k in c.keywords:
            self.eval(k.value, env, ctx)
        if fname == "int" and len(c.args) == 1:
            a = args[0] if isinstance(args[0], frozenset) else TOP
            if isinstance(c.args[0], ast.Name) or "STR" in a:
                self.site(ctx, c, "ValueError", F("NE", "DEC"), a)
            return [F("NOTNONE")]
        if fname == "len":
            a = args[0] if args and isinstance(args[0], frozenset) else TOP
            return [F("NOTNONE", "GE0", "GE1") if "NE" in a else F("NOTNONE", "GE0")]
        if isinstance(f, ast.Attribute):
            recv = self.eval(f.value, env, ctx)
            m = f.attr
            r = recv if isinstance(recv, frozenset) else TOP
            if m == "strip" and not c.args:
                out = {"STR", "NOTNONE", "RS", "LS"}
                if "NE" in r and "RS" in r:
                    out.add("NE")
                if "EMPTY" in r:
                    out |= {"EMPTY", "DEC"}
                if "DEC" in r:
                    out.add("DEC")
                return [frozenset(out)]
            if m == "join" and isinstance(f.value, ast.Constant) and f.value.value == "" and len(c.args) == 1 and isinstance(c.args[0], ast.Call) and norm(c.args[0].func) in ("takewhile", "itertools.takewhile") and len(c.args[0].args) == 2:
                # "".join(takewhile(pred, s)): the longest prefix of s whose characters satisfy pred (possibly empty)
                dec = {"DEC"} if norm(c.args[0].args[0]) == "str.isdecimal" else set()
                return [EMPTY_STR, frozenset({"STR", "NOTNONE", "NE"} | dec)]
            if m in ("replace", "lower", "upper", "format", "join", "isoformat"):
                return [F("STR", "NOTNONE")]
            if m == "startswith" and len(c.args) == 1 and isinstance(c.args[0], ast.Constant) and c.args[0].value in (",", ":", ";", "=") and isinstance(f.value, ast.Name):
                # the other spelling of the separator test `s[0] == ","`
                self.site(ctx, c, "Spacing", F("LS"), r)
            if m in ("find", "index", "count", "isdigit", "isdecimal", "isalpha", "startswith", "split", "items", "keys", "values", "append", "debug"):
                return [F("NOTNONE")]
            # dispatch on a token class held in a variable
            if m in ("check", "parse", "interpret") and isinstance(f.value, ast.Name):
                cls = [x[4:] for x in r if x.startswith("CLS:")]
                if cls and m in ("check", "parse"):
                    self.site(ctx, c, "AttributeError", F("NOTNONE"), r)
                if not cls:
                    known_instance = f.value.id in ("arg", "value", "val", "var") and m == "interpret"
                    if m in ("check", "parse"):
                        self.site(ctx, c, "AttributeError", F("NOTNONE"), r)
                    if "NOTNONE" in r or known_instance:
                        return [TOP]
                    return [TOP]
                ci = next((k for k in self.qtypes if k.name == cls[0]), None)
                if ci is not None and self.prog.method(ci, m) is not None and m in ("check", "parse"):
                    res = self.call(self.prog.method(ci, m), args)
                    ctx.res.raises |= res.raises
                    return list(res.returns) or []
                return [TOP]
            # static call ClassName.method(...)
            if isinstance(f.value, ast.Name) and f.value.id in {k.name for k in self.qtypes} and m in ("check", "parse"):
                ci = next(k for k in self.qtypes if k.name == f.value.id)
                res = self.call(self.prog.method(ci, m), args)
                ctx.res.raises |= res.raises
                return list(res.returns) or []
            return None
        if isinstance(f, ast.Name):
            r = self.prog.lookup(ctx.fi, f.id)
            if isinstance(r, FuncInfo) and r.mod.name == "aw_query.query2":
                res = self.call(r, args)
                ctx.res.raises |= res.raises
                return list(res.returns) or []
            if isinstance(r, ClassInfo):
                return [F("NOTNONE")]
            return None
        return None


def _dead_at_head(loop):
    """variables whose first occurrence in the loop body is an unconditional (top-level) store: their
    value from the previous iteration is never read, so their facts need not be carried round the loop"""
    first = {}
    for n in ast.walk(loop.test) if isinstance(loop, ast.While) else []:
        if isinstance(n, ast.Name):
            first.setdefault(n.id, "load")
    for st in loop.body:
        if isinstance(st, (ast.Assign, ast.AnnAssign)) and getattr(st, "value", None) is not None:
            for n in ast.walk(st.value):
                if isinstance(n, ast.Name):
                    first.setdefault(n.id, "load")
            tgts = st.targets if isinstance(st, ast.Assign) else [st.target]
            for t in tgts:
                for n in ast.walk(t):
                    if isinstance(n, ast.Name):
                        first.setdefault(n.id, "store" if isinstance(n.ctx, ast.Store) else "load")
        else:
            for n in ast.walk(st):
                if isinstance(n, ast.Name):
                    first.setdefault(n.id, "load")
    return {k for k, v in first.items() if v == "store"}


def _suffix(f):
    out = {"NOTNONE"}
    if "STR" in f:
        out.add("STR")
    if "RS" in f:
        out.add("RS")
    if "DEC" in f:
        out.add("DEC")
    if "EMPTY" in f:
        out |= {"EMPTY"}
    return frozenset(out)


def _meet(vals):
    vals = list(vals)
    if not vals:
        return TOP
    if all(isinstance(v, frozenset) for v in vals):
        return frozenset.intersection(*vals)
    if all(isinstance(v, tuple) and len(v) == len(vals[0]) for v in vals):
        return tuple(_meet([v[i] for v in vals]) for i in range(len(vals[0])))
    return TOP


def _flat(v):
    if isinstance(v, frozenset):
        return v
    if isinstance(v, tuple):
        out = []
        for i, x in enumerate(v):
            out += [f"{i}:{y}" for y in _flat(x)]
        return out
    return []


def _sig(states):
    return tuple(sorted(tuple(sorted((a, tuple(sorted(map(str, _flat(b))))) for a, b in e.items())) for e in states))


class _Loop:
    def __init__(self):
        self.breaks = []
        self.continues = []


class _Handlers:
    def __init__(self, types):
        self.types = types


class _Ctx:
    def __init__(self, fi, res):
        self.fi = fi
        self.res = res
        self.loops = []
        self.handlers = []
