"""Constructs that raise whenever they are evaluated (decided from the expression alone).

  FMT   an f-string / str.format field whose format spec asks for an integer presentation (d x X o b c) while the
        expression is a float by construction (.total_seconds(), .timestamp(), time.time(), true division, float(),
        a float literal, arithmetic over one of these): ValueError "Unknown format code 'd' for object of type 'float'"
  CAT   "text" + <number by construction>: TypeError
"""
from __future__ import annotations

import ast

from .model import norm, walk_own, walk_with_nested_exprs

FLOAT_CALLS = ("total_seconds", "timestamp", "perf_counter", "monotonic", "process_time")
FLOAT_FUNCS = ("float", "time.time", "time.perf_counter", "time.monotonic", "time.process_time", "math.sqrt", "math.fsum")
INT_CALLS = ("len", "int", "ord", "hash", "id")


def static_kind(e, fi=None, _d=0):
    """'float' | 'int' | 'str' | None for an expression, from its construction alone"""
    from .sqlmodel import single_def

    if _d > 6:
        return None
    if isinstance(e, ast.Constant):
        if isinstance(e.value, bool):
            return None
        if isinstance(e.value, float):
            return "float"
        if isinstance(e.value, int):
            return "int"
        if isinstance(e.value, str):
            return "str"
        return None
    if isinstance(e, ast.JoinedStr):
        return "str"
    if isinstance(e, ast.Call):
        f = e.func
        if isinstance(f, ast.Attribute) and f.attr in FLOAT_CALLS and not e.args:
            return "float"
        if norm(f) in FLOAT_FUNCS:
            return "float"
        if isinstance(f, ast.Name) and f.id in INT_CALLS:
            return "int"
        if isinstance(f, ast.Name) and f.id == "str" or (isinstance(f, ast.Attribute) and f.attr in ("format", "join", "isoformat", "strip", "lower", "upper")):
            return "str"
        if isinstance(f, ast.Name) and f.id == "round":
            if len(e.args) == 1 and not e.keywords:
                return "int" if static_kind(e.args[0], fi, _d + 1) in ("float", "int") else None
            return static_kind(e.args[0], fi, _d + 1) if e.args else None
        return None
    if isinstance(e, ast.BinOp):
        a, b = static_kind(e.left, fi, _d + 1), static_kind(e.right, fi, _d + 1)
        if isinstance(e.op, ast.Div) and a in ("float", "int") and b in ("float", "int"):
            return "float"
        if isinstance(e.op, (ast.Add, ast.Sub, ast.Mult, ast.Mod, ast.Pow, ast.FloorDiv)) and {a, b} <= {"float", "int"} and a and b:
            return "float" if "float" in (a, b) else "int"
        if isinstance(e.op, ast.Add) and a == b == "str":
            return "str"
        if isinstance(e.op, ast.Mod) and a == "str":
            return "str"
        return None
    if isinstance(e, ast.UnaryOp) and isinstance(e.op, (ast.USub, ast.UAdd)):
        return static_kind(e.operand, fi, _d + 1)
    if isinstance(e, ast.Name) and fi is not None and e.id not in fi.params:
        v = single_def(fi, e.id)
        if v is not None:
            return static_kind(v, fi, _d + 1)
    return None


def _spec_type(spec):
    """presentation type of a constant format spec ('' when none)"""
    if isinstance(spec, ast.JoinedStr) and all(isinstance(v, ast.Constant) for v in spec.values):
        t = "".join(str(v.value) for v in spec.values)
        return t[-1] if t and t[-1].isalpha() else ""
    return None


def certain_raises(fi):
    out = []
    for n in walk_with_nested_exprs(fi.node):
        if isinstance(n, ast.FormattedValue) and n.format_spec is not None:
            ty = _spec_type(n.format_spec)
            k = static_kind(n.value, fi)
            if ty and ty in "dxXobc" and k == "float":
                out.append((n, f"`{{{norm(n.value)}:{norm(n.format_spec)[2:-1] if norm(n.format_spec).startswith('f') else ty}}}` formats a float (`{norm(n.value)[:50]}`) with the integer presentation '{ty}': ValueError (Unknown format code '{ty}' for object of type 'float') every time the string is built"))
            if ty and ty in "dxXobceEfFgGn%" and k == "str":
                out.append((n, f"`{norm(n.value)[:50]}` is text but is formatted with the numeric presentation '{ty}': ValueError every time the string is built"))
        if isinstance(n, ast.BinOp) and isinstance(n.op, ast.Add):
            a, b = static_kind(n.left, fi), static_kind(n.right, fi)
            if {a, b} in ({"str", "float"}, {"str", "int"}):
                out.append((n, f"`{norm(n)[:70]}` adds text and a number: TypeError every time it is evaluated"))
    return out


# ---------------------------------------------------------------------------------------------------------
# LOG-TOTAL: what a logging statement evaluates must be defined for every input the function accepts


def _is_log_call(c):
    from .normalize import _is_log_call as f

    return f(c)


def _guard_names(node, stop):
    """names mentioned by the tests of the if / conditional expressions / while loops that enclose `node` (up to `stop`)"""
    from .model import parent

    out = set()
    cur, p = node, parent(node)
    while p is not None and cur is not stop:
        if isinstance(p, (ast.If, ast.While, ast.IfExp)) and cur is not p.test:
            out |= {norm(x) for x in ast.walk(p.test) if isinstance(x, (ast.Name, ast.Attribute, ast.Call))}
        if isinstance(p, ast.BoolOp) and cur in p.values:
            for v in p.values[: p.values.index(cur)]:
                out |= {norm(x) for x in ast.walk(v) if isinstance(x, (ast.Name, ast.Attribute, ast.Call))}
        cur, p = p, parent(p)
    return out


def log_partial_ops(fi):
    """-> [(node, why)]: operations inside the arguments of a logging call (f-string parts included) that are not defined for
    every value: first / last element of a sequence that may be empty, division by a quantity that may be zero, %-formatting
    of text that was itself interpolated, a numeric format code on a value that is not a number"""
    from .model import parent

    out = []
    ann = {}
    a = fi.node.args
    for p_ in a.posonlyargs + a.args + a.kwonlyargs:
        if p_.annotation is not None:
            ann[p_.arg] = norm(p_.annotation)
    for c in [x for x in walk_with_nested_exprs(fi.node) if isinstance(x, ast.Call) and _is_log_call(x)]:
        for n in [y for arg in list(c.args) + [k.value for k in c.keywords] for y in ast.walk(arg)]:
            guards = None
            if isinstance(n, ast.Subscript) and isinstance(n.ctx, ast.Load) and isinstance(n.value, (ast.Name, ast.Attribute)):
                idx = n.slice
                k = idx.value if isinstance(idx, ast.Constant) else (-idx.operand.value if isinstance(idx, ast.UnaryOp) and isinstance(idx.op, ast.USub) and isinstance(idx.operand, ast.Constant) else None)
                if isinstance(k, int) and not isinstance(k, bool):
                    guards = _guard_names(c, fi.node)
                    base = norm(n.value)
                    if base not in guards and f"len({base})" not in guards:
                        out.append((n, f"`{norm(n)[:40]}` in a log statement takes element {k} of `{base}`, which may be empty here: the arguments of a logging call are evaluated whatever the log level, so an empty `{base}` raises IndexError instead of being processed"))
            if isinstance(n, ast.BinOp) and isinstance(n.op, (ast.Div, ast.FloorDiv, ast.Mod)) and static_kind(n.left, fi) != "str" and not isinstance(n.left, ast.JoinedStr):
                r = n.right
                if not (isinstance(r, ast.Constant) and isinstance(r.value, (int, float)) and r.value != 0):
                    guards = _guard_names(c, fi.node)
                    names = {norm(x) for x in ast.walk(r) if isinstance(x, (ast.Name, ast.Attribute, ast.Call))}
                    if not (names & guards):
                        out.append((n, f"`{norm(n)[:50]}` in a log statement divides by `{norm(r)[:30]}`, which may be zero (an empty input, a single element): the arguments of a logging call are evaluated whatever the log level, so the function raises ZeroDivisionError for that input"))
            if isinstance(n, ast.BinOp) and isinstance(n.op, ast.Mod) and isinstance(n.left, ast.JoinedStr) and any(isinstance(v, ast.FormattedValue) for v in n.left.values):
                out.append((n, f"`{norm(n)[:60]}` applies %-formatting to text that was already interpolated: a `%` in the interpolated value (a bucket id, a title) is read as a conversion and raises ValueError / TypeError"))
            if isinstance(n, ast.BinOp) and isinstance(n.op, ast.Mod) and isinstance(n.left, ast.Constant) and isinstance(n.left.value, str):
                import re as _re

                convs = _re.findall(r"%[-+ #0]*\d*(?:\.\d+)?([a-zA-Z%])", n.left.value)
                convs = [x for x in convs if x != "%"]
                ops = list(n.right.elts) if isinstance(n.right, ast.Tuple) else [n.right]
                # "... %s" % t  with t itself a tuple: its ELEMENTS are the operands (TypeError unless there is exactly one)
                from .sqlmodel import single_def as _sd

                rv = _sd(fi, n.right.id) if isinstance(n.right, ast.Name) and n.right.id not in fi.params else None
                if isinstance(rv, ast.Call) and norm(rv.func) == "tuple" or isinstance(rv, ast.Tuple):
                    out.append((n, f"`{norm(n)[:60]}` gives %-formatting a tuple (`{n.right.id} = {norm(rv)[:40]}`) as its right operand: the tuple's elements are taken as the operands, so the line raises TypeError whenever the tuple does not have exactly {len(convs)} element(s)"))
                for cv, op in zip(convs, ops):
                    if cv in "dioxXeEfFgG" and isinstance(op, ast.Attribute) and op.attr == "id":
                        out.append((n, f"`%{cv}` is applied to `{norm(op)}` while the message is built (eager %-formatting): an event that was never stored has id None, and `%{cv}` of None raises TypeError"))
            if isinstance(n, ast.FormattedValue) and n.format_spec is not None:
                ty = _spec_type(n.format_spec)
                v = n.value
                temporal = (isinstance(v, ast.Name) and any(t_ in ann.get(v.id, "") for t_ in ("timedelta", "datetime", "Duration", "ConvertibleTimestamp"))) or (isinstance(v, ast.Attribute) and v.attr in ("duration", "timestamp")) or (isinstance(v, ast.Subscript) and isinstance(v.slice, ast.Constant) and v.slice.value in ("duration", "timestamp"))
                if ty and ty in "dxXobceEfFgGn%" and temporal:
                    out.append((n, f"`{{{norm(v)}:{ty}}}` formats a timedelta / datetime with the numeric presentation '{ty}': their __format__ rejects it (TypeError / ValueError) whenever the line is reached"))
    return out


def _positive(e, fi, _d=0):
    """e is certainly > 0 (a positive literal, max(positive, …), a local whose every binding is)"""
    if isinstance(e, ast.Constant):
        return isinstance(e.value, (int, float)) and not isinstance(e.value, bool) and e.value > 0
    if isinstance(e, ast.Call) and norm(e.func) == "max" and any(_positive(a, fi, _d) for a in e.args):
        return True
    if isinstance(e, ast.BinOp) and isinstance(e.op, ast.Mult):
        return _positive(e.left, fi, _d) and _positive(e.right, fi, _d)
    if isinstance(e, ast.Name) and _d < 3:
        binds = [st for st in ast.walk(fi.node) if isinstance(st, ast.Assign) and any(isinstance(t, ast.Name) and t.id == e.id for t in st.targets)]
        others = [n for n in ast.walk(fi.node) if isinstance(n, ast.Name) and n.id == e.id and isinstance(n.ctx, ast.Store)]
        if binds and len(others) == len(binds):
            return all(_positive(b.value, fi, _d + 1) for b in binds)
        if not others:
            # a module constant
            v = fi.mod.constants.get(e.id) if hasattr(fi.mod, "constants") else None
            if v is not None:
                return _positive(v, fi, _d + 1)
    return False


def negative_slices(prog, rep, files, rule="NEG-SLICE"):
    """`xs[-n:]` is the last n elements only for n > 0: at n == 0 it is the whole sequence (and `xs[:-n]` is empty)"""
    rep.rule(rule, "a slice counted from the end (`xs[-n:]`, `xs[:-n]`) has a bound that cannot be zero where it is evaluated: -0 is 0, so at n == 0 `xs[-n:]` is the whole sequence and `xs[:-n]` is empty — the opposite of 'the last / all but the last n'. The bound is a positive constant, or the slice is under a test that mentions it")
    n = 0
    for fi in prog.funcs.values():
        if fi.mod.relpath not in files:
            continue
        for sub in walk_own(fi.node):
            if not (isinstance(sub, ast.Subscript) and isinstance(sub.slice, ast.Slice)):
                continue
            for which, b in (("lower", sub.slice.lower), ("upper", sub.slice.upper)):
                if not (isinstance(b, ast.UnaryOp) and isinstance(b.op, ast.USub)) or isinstance(b.operand, ast.Constant):
                    continue
                n += 1
                e = b.operand
                names = {norm(x) for x in ast.walk(e) if isinstance(x, (ast.Name, ast.Attribute, ast.Call))}
                if _positive(e, fi) or (names & _guard_names(sub, fi.node)):
                    rep.ok(rule, fi.short, norm(sub)[:50], "bound positive or tested", fi.loc(sub))
                    continue
                what = "the whole sequence" if which == "lower" else "empty"
                rep.violation(rule, fi.short, norm(sub)[:50], f"`{norm(sub)}`: when `{norm(e)}` is 0 the slice is {what}, not {'the last' if which == 'lower' else 'all but the last'} 0 elements; nothing on the way to it tests `{norm(e)}`", fi.loc(sub))
    rep.ok(rule, "anchor files", "slices counted from the end", f"{n} found in {sorted(files)}", None)


def optional_attrs(prog, rep, files, rule="OPT-ATTR"):
    """`f.__doc__` is None for a function without a docstring (and for every function under -OO): using it as a string
    without a test raises AttributeError / TypeError — inside an error handler that replaces the error being reported"""
    rep.rule(rule, "an attribute the language defines as `str or None` (`__doc__`) is not used as a string (method call, subscript, concatenation, iteration) unless a test of it is on the way (`if f.__doc__`, `f.__doc__ or ''`): a function without a docstring — some registered built-ins have none, and `python -OO` strips all — turns the line into AttributeError / TypeError")
    from .model import parent

    n = 0
    for fi in prog.funcs.values():
        if fi.mod.relpath not in files:
            continue
        for a in walk_own(fi.node):
            if not (isinstance(a, ast.Attribute) and a.attr == "__doc__" and isinstance(a.ctx, ast.Load)):
                continue
            n += 1
            p = parent(a)
            used = (isinstance(p, ast.Attribute) and p.value is a) or (isinstance(p, ast.Subscript) and p.value is a) or (isinstance(p, ast.BinOp) and isinstance(p.op, (ast.Add, ast.Mod))) or (isinstance(p, ast.Call) and p.func is not a and norm(p.func) in ("len", "textwrap.dedent", "inspect.cleandoc")) or isinstance(p, (ast.For, ast.comprehension))
            if not used:
                continue
            guarded = any("__doc__" in g for g in _guard_names(a, fi.node))
            rep.check(guarded, rule, fi.short, norm(p)[:50], "tested before use", f"`{norm(p)[:60]}` uses `{norm(a)}` as a string, but it is None for a function without a docstring (and always under `python -OO`): the line raises {'AttributeError' if isinstance(p, ast.Attribute) else 'TypeError'} there, in place of whatever the function was about to report", fi.loc(a))
    rep.ok(rule, "anchor files", "__doc__ uses", f"{n} found in {sorted(files)}", None)


def log_total(prog, rep, files, rule="LOG-TOTAL"):
    """files: repo-relative paths (the property's anchor files)"""
    rep.rule(rule, "what a logging statement evaluates is defined for every input: no first / last element of a possibly empty sequence, no division by a possibly zero count, no %-formatting of interpolated text or of a None id, no numeric format code on a timedelta / datetime. The arguments of a logging call are evaluated whatever the log level: such a line turns an input the function handled (an empty list, a single event, an unsaved event) into an exception")
    n = 0
    for fi in prog.funcs.values():
        if fi.mod.relpath not in files:
            continue
        n += 1
        for node, why in log_partial_ops(fi):
            rep.violation(rule, fi.short, norm(node)[:50], why, fi.loc(node))
    rep.ok(rule, "anchor files", "logging statements", f"{n} functions scanned in {sorted(files)}", None)


# ---------------------------------------------------------------------------------------------------------
# ONE-SHOT: an iterator object that is consumed more than once yields nothing the second time

ONE_SHOT_CALLS = ("iter", "zip", "map", "filter", "enumerate", "reversed", "itertools.chain", "chain", "itertools.islice", "islice", "itertools.filterfalse", "filterfalse", "itertools.takewhile", "takewhile", "itertools.dropwhile", "dropwhile", "itertools.groupby", "groupby")


def one_shot_reuse(prog, rep, files, rule="ONE-SHOT"):
    """a local (or re-bound parameter) that may hold a one-shot iterator and is used inside a loop / comprehension of the same
    function (i.e. once per element), or handed to a per-element call there"""
    from .model import parent
    from .sqlmodel import local_defs

    rep.rule(rule, "a name that may be bound to a one-shot iterator (generator expression, iter / zip / map / filter / enumerate / reversed / itertools object) is not used inside a loop body or comprehension of that function: the first round consumes it, every later element sees an empty sequence (rules that are never tried, keys that are never compared)")
    n = 0
    for fi in prog.funcs.values():
        if fi.mod.relpath not in files:
            continue
        n += 1
        cand = {}
        for node in walk_own(fi.node):
            if isinstance(node, ast.Assign) and len(node.targets) == 1 and isinstance(node.targets[0], ast.Name):
                v = node.value
                arms = [v.body, v.orelse] if isinstance(v, ast.IfExp) else [v]
                for a in arms:
                    if isinstance(a, ast.GeneratorExp) or (isinstance(a, ast.Call) and norm(a.func) in ONE_SHOT_CALLS):
                        cand.setdefault(node.targets[0].id, node)
        for name, d in cand.items():
            for use in walk_with_nested_exprs(fi.node):
                if not (isinstance(use, ast.Name) and use.id == name and isinstance(use.ctx, ast.Load)):
                    continue
                # inside the body of a loop / the element or condition of a comprehension (not: the iterable of the outermost loop)
                cur, p = use, parent(use)
                repeated = None
                while p is not None and p is not fi.node:
                    if isinstance(p, (ast.For, ast.While)) and any(cur is b or any(cur is y for y in ast.walk(b)) for b in p.body):
                        repeated = p
                    if isinstance(p, (ast.ListComp, ast.SetComp, ast.GeneratorExp, ast.DictComp)) and not any(any(use is y for y in ast.walk(g_.iter)) for g_ in p.generators[:1]):
                        repeated = p
                    cur, p = p, parent(p)
                if repeated is not None and d.lineno <= use.lineno and not any(d is y for y in ast.walk(repeated)):
                    rep.violation(rule, fi.short, f"`{name}` used per element", f"`{name}` may be bound to a one-shot iterator (`{norm(d)[:70]}`) and is used at line {use.lineno} inside `{norm(repeated).splitlines()[0][:50]}`, which runs once per element: the first element consumes the iterator, every later one finds it empty", fi.loc(use))
                    break
    rep.ok(rule, "anchor files", "iterator objects", f"{n} functions scanned", None)


# ---------------------------------------------------------------------------------------------------------
# FREE-STATE: functions of the anchor files keep nothing between calls

MUTATORS = ("append", "extend", "insert", "pop", "popitem", "remove", "clear", "update", "setdefault", "add", "discard", "sort", "reverse", "appendleft", "popleft")


def free_state(prog, rep, files, rule="FREE-STATE"):
    """a function writes into a container that outlives the call: a variable of an enclosing function (what a decorator or
    factory keeps for its inner function) or a module-level container introduced after the rules were written"""
    from .normalize import known_constants

    rep.rule(rule, "no function of the anchor files writes into a container that outlives the call (a variable of an enclosing function, e.g. the `last = {}` of a memoising decorator; a module-level dict / list / set that is not one of the module's known tables): what one call leaves there answers a later call, whose arguments may have changed in place (same list object, same length) or may belong to another store")
    known = set(known_constants()) if callable(known_constants) else set()
    n = 0
    for fi in prog.funcs.values():
        if fi.mod.relpath not in files:
            continue
        n += 1
        local = set(fi.params) | {x.id for x in walk_own(fi.node) if isinstance(x, ast.Name) and isinstance(x.ctx, ast.Store)}
        if fi.node.args.vararg:
            local.add(fi.node.args.vararg.arg)
        if fi.node.args.kwarg:
            local.add(fi.node.args.kwarg.arg)
        for node in walk_own(fi.node):
            base = None
            if isinstance(node, (ast.Assign, ast.AugAssign)):
                for t in (node.targets if isinstance(node, ast.Assign) else [node.target]):
                    b = t
                    while isinstance(b, ast.Subscript):
                        b = b.value
                    if b is not t and isinstance(b, ast.Name):
                        base = b.id
            elif isinstance(node, ast.Expr) and isinstance(node.value, ast.Call) and isinstance(node.value.func, ast.Attribute) and node.value.func.attr in MUTATORS and isinstance(node.value.func.value, ast.Name):
                base = node.value.func.value.id
            elif isinstance(node, ast.Call) and isinstance(node.func, ast.Attribute) and node.func.attr == "setdefault" and isinstance(node.func.value, ast.Name):
                base = node.func.value.id  # d.setdefault(k, v) writes wherever it stands (as the value of an assignment, too)
            elif isinstance(node, ast.Delete):
                for t in node.targets:
                    if isinstance(t, ast.Subscript) and isinstance(t.value, ast.Name):
                        base = t.value.id
            if base is None or base in local or base in ("self", "cls"):
                continue
            # where does the name live?
            o = fi.outer
            where = None
            while o is not None:
                if base in set(o.params) | {x.id for x in walk_own(o.node) if isinstance(x, ast.Name) and isinstance(x.ctx, ast.Store)}:
                    where = f"a variable of the enclosing function {o.short}"
                    break
                o = o.outer
            if where is None and base in fi.mod.consts:
                q = f"{fi.mod.name}:{base}"
                if q in known:
                    continue
                v = fi.mod.consts[base]
                if isinstance(v, (ast.Dict, ast.List, ast.Set)) or (isinstance(v, ast.Call) and norm(v.func) in ("dict", "list", "set", "defaultdict", "collections.defaultdict", "OrderedDict", "collections.OrderedDict", "deque", "collections.deque", "WeakValueDictionary", "weakref.WeakValueDictionary", "WeakKeyDictionary", "weakref.WeakKeyDictionary", "WeakSet", "weakref.WeakSet", "Counter", "collections.Counter", "ChainMap", "collections.ChainMap")):
                    where = f"the module-level container `{base}`"
            if where is None:
                continue
            rep.violation(rule, fi.short, f"`{norm(node)[:50]}`", f"{fi.short} writes into {where} (`{norm(node)[:70]}`): it outlives the call, so a later call is answered from what an earlier one left there; the arguments it was computed from may have been changed in place since (same list object, same length), or belong to another datastore", fi.loc(node))
        # a mutable default is created once, when the function is defined: handing it on or writing into it keeps state
        a_ = fi.node.args
        pos_ = a_.posonlyargs + a_.args
        for p_, d_ in list(zip(pos_[len(pos_) - len(a_.defaults):], a_.defaults)) + [(p2, d2) for p2, d2 in zip(a_.kwonlyargs, a_.kw_defaults) if d2 is not None]:
            mutable = isinstance(d_, (ast.Dict, ast.List, ast.Set)) or (isinstance(d_, ast.Call) and norm(d_.func) in ("dict", "list", "set", "defaultdict", "collections.defaultdict", "deque", "collections.deque"))
            if not mutable:
                continue
            nm = p_.arg
            if any(isinstance(x, ast.Name) and x.id == nm and isinstance(x.ctx, ast.Store) for x in walk_own(fi.node)):
                continue  # re-bound before use (e.g. `x = x or {}`) is judged by its uses below only if it is not re-bound
            used = None
            for x in walk_with_nested_exprs(fi.node):
                if isinstance(x, ast.Call) and any(isinstance(y, ast.Name) and y.id == nm for y in list(x.args) + [k.value for k in x.keywords]):
                    used = used or x
                if isinstance(x, ast.Call) and isinstance(x.func, ast.Attribute) and isinstance(x.func.value, ast.Name) and x.func.value.id == nm and x.func.attr in MUTATORS:
                    used = used or x
                if isinstance(x, (ast.Assign, ast.AugAssign)) and any(isinstance(t, ast.Subscript) and isinstance(t.value, ast.Name) and t.value.id == nm for t in (x.targets if isinstance(x, ast.Assign) else [x.target])):
                    used = used or x
            if used is not None:
                rep.violation(rule, fi.short, f"mutable default `{nm}={norm(d_)}`", f"the default of `{nm}` is one object for all calls, and `{norm(used)[:60]}` hands it on / writes into it: what one call puts there (e.g. the memo of a deepcopy: id(original) -> copy) is still there at the next call, which then reuses copies made for other arguments", fi.loc(used))
    rep.ok(rule, "anchor files", "state between calls", f"{n} functions scanned", None)
