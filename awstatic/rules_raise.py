"""Constructs that raise whenever they are evaluated (decided from the expression alone).

  FMT   an f-string / str.format field whose format spec asks for an integer presentation (d x X o b c) while the
        expression is a float by construction (.total_seconds(), .timestamp(), time.time(), true division, float(),
        a float literal, arithmetic over one of these): ValueError "Unknown format code 'd' for object of type 'float'"
  CAT   "text" + <number by construction>: TypeError
"""
from __future__ import annotations

import ast

from .model import norm, walk_with_nested_exprs

FLOAT_CALLS = ("total_seconds", "timestamp", "perf_counter", "monotonic", "process_time")
FLOAT_FUNCS = ("float", "time.time", "time.perf_counter", "time.monotonic", "time.process_time", "math.sqrt", "math.fsum")
INT_CALLS = ("len", "int", "ord", "hash", "id")


def static_kind(e, fi=None, _d=0):
    """'float' | 'int' | 'str' | None for an expression, from its construction alone"""
    from .sqlmodel import single_def

    if _d > 6:
        return None
    if isinstance(e, ast.Constant):
        if isinstance(e.value, bool):
            return None
        if isinstance(e.value, float):
            return "float"
        if isinstance(e.value, int):
            return "int"
        if isinstance(e.value, str):
            return "str"
        return None
    if isinstance(e, ast.JoinedStr):
        return "str"
    if isinstance(e, ast.Call):
        f = e.func
        if isinstance(f, ast.Attribute) and f.attr in FLOAT_CALLS and not e.args:
            return "float"
        if norm(f) in FLOAT_FUNCS:
            return "float"
        if isinstance(f, ast.Name) and f.id in INT_CALLS:
            return "int"
        if isinstance(f, ast.Name) and f.id == "str" or (isinstance(f, ast.Attribute) and f.attr in ("format", "join", "isoformat", "strip", "lower", "upper")):
            return "str"
        if isinstance(f, ast.Name) and f.id == "round":
            if len(e.args) == 1 and not e.keywords:
                return "int" if static_kind(e.args[0], fi, _d + 1) in ("float", "int") else None
            return static_kind(e.args[0], fi, _d + 1) if e.args else None
        return None
    if isinstance(e, ast.BinOp):
        a, b = static_kind(e.left, fi, _d + 1), static_kind(e.right, fi, _d + 1)
        if isinstance(e.op, ast.Div) and a in ("float", "int") and b in ("float", "int"):
            return "float"
        if isinstance(e.op, (ast.Add, ast.Sub, ast.Mult, ast.Mod, ast.Pow, ast.FloorDiv)) and {a, b} <= {"float", "int"} and a and b:
            return "float" if "float" in (a, b) else "int"
        if isinstance(e.op, ast.Add) and a == b == "str":
            return "str"
        if isinstance(e.op, ast.Mod) and a == "str":
            return "str"
        return None
    if isinstance(e, ast.UnaryOp) and isinstance(e.op, (ast.USub, ast.UAdd)):
        return static_kind(e.operand, fi, _d + 1)
    if isinstance(e, ast.Name) and fi is not None and e.id not in fi.params:
        v = single_def(fi, e.id)
        if v is not None:
            return static_kind(v, fi, _d + 1)
    return None


def _spec_type(spec):
    """presentation type of a constant format spec ('' when none)"""
    if isinstance(spec, ast.JoinedStr) and all(isinstance(v, ast.Constant) for v in spec.values):
        t = "".join(str(v.value) for v in spec.values)
        return t[-1] if t and t[-1].isalpha() else ""
    return None


def certain_raises(fi):
    out = []
    for n in walk_with_nested_exprs(fi.node):
        if isinstance(n, ast.FormattedValue) and n.format_spec is not None:
            ty = _spec_type(n.format_spec)
            k = static_kind(n.value, fi)
            if ty and ty in "dxXobc" and k == "float":
                out.append((n, f"`{{{norm(n.value)}:{norm(n.format_spec)[2:-1] if norm(n.format_spec).startswith('f') else ty}}}` formats a float (`{norm(n.value)[:50]}`) with the integer presentation '{ty}': ValueError (Unknown format code '{ty}' for object of type 'float') every time the string is built"))
            if ty and ty in "dxXobceEfFgGn%" and k == "str":
                out.append((n, f"`{norm(n.value)[:50]}` is text but is formatted with the numeric presentation '{ty}': ValueError every time the string is built"))
        if isinstance(n, ast.BinOp) and isinstance(n.op, ast.Add):
            a, b = static_kind(n.left, fi), static_kind(n.right, fi)
            if {a, b} in ({"str", "float"}, {"str", "int"}):
                out.append((n, f"`{norm(n)[:70]}` adds text and a number: TypeError every time it is evaluated"))
    return out
