"""Entry point:  ./check <Cnn> [--tier quick|thorough] [--repo /repo] [--replay file] [--evidence-dir d]"""
from __future__ import annotations

import argparse
import importlib
import json
import os
import sys
import traceback

from .core import AnalysisError, Report


def anchor_files(prop):
    here = os.path.dirname(os.path.dirname(os.path.abspath(__file__)))
    for line in open(os.path.join(here, "properties.jsonl")):
        d = json.loads(line)
        if d["id"] == prop:
            return set(d.get("anchors", {}).get("files", []))
    return set()


def run_property(prop, tier="quick", repo="/repo", evidence_dir=None, quiet=False, replay=None, selftest=True):
    rep = Report(prop, tier, repo, evidence_dir, quiet)
    if replay:
        rep.replay_filter = json.load(open(replay))["key"]
    try:
        mod = importlib.import_module(f"awstatic.props.{prop.lower()}")
    except ModuleNotFoundError:
        print(f"ANALYSIS-ERROR property={prop} no checker module")
        return 2, rep
    try:
        from .model import Program

        prog = Program(repo)
        rep.prog = prog
        if prog.normalised or prog.inlined:
            rep.extra["normalisations"] = list(prog.normalised) + [f"inlined {h} into {c}" for c, h in prog.inlined]
        try:
            mod.check(prog, rep)
        except AnalysisError as e:
            # the rules shared by all properties below still run: a violation they find is reported next to the error
            rep.error(f"{e}")
        # shared by all properties: the logging statements of the property's anchor files evaluate nothing that can fail
        from .rules_raise import log_total

        log_total(prog, rep, anchor_files(prop))
        from .rules_raise import one_shot_reuse

        one_shot_reuse(prog, rep, anchor_files(prop))
        from .rules_raise import free_state

        free_state(prog, rep, anchor_files(prop))
        from .rules_raise import negative_slices

        negative_slices(prog, rep, anchor_files(prop))
        from .rules_raise import optional_attrs

        optional_attrs(prog, rep, anchor_files(prop))
        # the Event class is underneath every property that stores, copies, compares or does arithmetic on events: its setters
        # normalise (NORMALISE, DURATION), deepcopy is the default protocol (COPY-PROTOCOL), its order is by timestamp (ORDER-KEY)
        if prop not in ("C20",):
            from .props.c13 import duration_dispatch, event_order, id_setter, normalisation
            from .rules_own import copy_protocol

            for rule_name, fn_ in (("NORMALISE", normalisation), ("DURATION", duration_dispatch), ("COPY-PROTOCOL", copy_protocol), ("ORDER-KEY", event_order), ("ID-SETTER", id_setter)):
                if rule_name not in rep.rules:
                    fn_(prog, rep)
        if tier == "thorough" and selftest and hasattr(mod, "VARIANTS"):
            from .selftest import run_selftest

            run_selftest(prop, mod, rep)
        if tier == "thorough" and hasattr(mod, "thorough"):
            mod.thorough(prog, rep)
    except AnalysisError as e:
        rep.error(f"{e}")
    except Exception:
        rep.error("internal error in checker: " + traceback.format_exc(limit=6).replace("\n", " | "))
    return rep.finish(), rep


def main(argv=None):
    ap = argparse.ArgumentParser()
    ap.add_argument("prop")
    ap.add_argument("--tier", default=os.environ.get("VERIF_TIER") or "quick", choices=["quick", "thorough"])
    ap.add_argument("--repo", default="/repo")
    ap.add_argument("--replay")
    ap.add_argument("--evidence-dir")
    ap.add_argument("--no-selftest", action="store_true")
    a = ap.parse_args(argv)
    code, _ = run_property(a.prop.upper(), a.tier, a.repo, a.evidence_dir, replay=a.replay, selftest=not a.no_selftest)
    return code


if __name__ == "__main__":
    sys.exit(main())
