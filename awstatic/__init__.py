"""awstatic — static checkers for the aw-core properties C01..C20 (see /verif/DESIGN.md)."""
