"""Finite abstraction of a bracket-matching scanner loop (C11-QUOTES when the quote state is not kept in two flags).

The loop body is interpreted over a finite domain, never executed: the loop character ranges over nine CLASSES of characters
(each with a representative the tests are evaluated on: the two quotes, the backslash, the scanner's opening and closing
bracket, a letter, a digit, a blank, another symbol), the previous character over the same classes or None, and every other
variable the body assigns holds one of the finitely many values the body can give it (constants, the loop character, other
such variables, `not v`).  Integer counters (the depth, positions) are not tracked: the depth only as the net step of one
round (+1 / -1 / 0), tests on counters are taken both ways.

The abstract transition function is compared, on every reachable state and every character class, with the reference
automaton of the property: OUT -'-> IN' -'-> OUT, OUT -"-> IN" -"-> OUT, a quote is inert after a backslash and inside the
other kind of quote, and the depth steps exactly on the scanner's own brackets read in state OUT.  The relation between the
scanner's variable values and the reference state is built during the exploration and must be a function.
"""
from __future__ import annotations

import ast

from .model import norm

UNKNOWN = object()


class Undecided(Exception):
    pass


def classes(open_ch, close_ch):
    return {"SQ": "'", "DQ": '"', "BS": "\\", "OPEN": open_ch, "CLOSE": close_ch, "LETTER": "a", "DIGIT": "1", "SPACE": " ", "OTHER": "+"}


def ref_step(q, cls, prev_cls):
    """reference automaton: -> (q', depth step)"""
    esc = prev_cls == "BS"
    if cls == "SQ" and not esc and q != "IN_D":
        return ("IN_S" if q == "OUT" else "OUT"), 0
    if cls == "DQ" and not esc and q != "IN_S":
        return ("IN_D" if q == "OUT" else "OUT"), 0
    if q == "OUT" and cls == "OPEN":
        return q, +1
    if q == "OUT" and cls == "CLOSE":
        return q, -1
    return q, 0


class Interp:
    def __init__(self, body, ch, depth, tracked, counters):
        self.body, self.ch, self.depth, self.tracked, self.counters = body, ch, depth, tracked, counters

    # ---- expressions: -> python value | UNKNOWN
    def ev(self, e, env):
        if isinstance(e, ast.Constant):
            return e.value
        if isinstance(e, ast.Name):
            if e.id in env:
                return env[e.id]
            if e.id in self.counters or e.id == self.depth:
                return UNKNOWN
            raise Undecided(f"name `{e.id}`")
        if isinstance(e, ast.UnaryOp) and isinstance(e.op, ast.Not):
            v = self.truth(e.operand, env)
            return UNKNOWN if v is UNKNOWN else (not v)
        if isinstance(e, ast.BoolOp):
            vals = []
            for x in e.values:
                t = self.truth(x, env)
                if isinstance(e.op, ast.And):
                    if t is False:
                        return False
                else:
                    if t is True:
                        return True
                vals.append(t)
            return UNKNOWN if any(v is UNKNOWN for v in vals) else (isinstance(e.op, ast.And))
        if isinstance(e, ast.Compare) and len(e.ops) == 1:
            a, b = self.ev(e.left, env), self.ev(e.comparators[0], env)
            op = e.ops[0]
            if a is UNKNOWN or b is UNKNOWN:
                return UNKNOWN
            if isinstance(op, ast.Eq):
                return a == b
            if isinstance(op, ast.NotEq):
                return a != b
            if isinstance(op, ast.Is):
                return a is b or (a == b and isinstance(a, (bool, str)) and isinstance(b, (bool, str)))
            if isinstance(op, ast.IsNot):
                return not (a is b or (a == b and isinstance(a, (bool, str)) and isinstance(b, (bool, str))))
            if isinstance(op, ast.In):
                return a in b
            if isinstance(op, ast.NotIn):
                return a not in b
            return UNKNOWN
        if isinstance(e, (ast.Tuple, ast.List, ast.Set)):
            vals = [self.ev(x, env) for x in e.elts]
            if any(v is UNKNOWN for v in vals):
                return UNKNOWN
            return tuple(vals)
        if isinstance(e, ast.IfExp):
            t = self.truth(e.test, env)
            if t is UNKNOWN:
                a, b = self.ev(e.body, env), self.ev(e.orelse, env)
                if a is b or (a == b and type(a) is type(b)):
                    return a
                raise Undecided(f"conditional value on an unknown test `{norm(e.test)[:40]}`")
            return self.ev(e.body if t else e.orelse, env)
        if isinstance(e, ast.Call) and isinstance(e.func, ast.Attribute) and not e.args and e.func.attr in ("isdigit", "isdecimal", "isalpha", "isalnum", "isspace", "isidentifier", "isnumeric"):
            v = self.ev(e.func.value, env)
            if v is UNKNOWN:
                return UNKNOWN
            if not isinstance(v, str):
                raise Undecided(f"`{norm(e)[:40]}` on a non-string")
            return getattr(v, e.func.attr)()
        if isinstance(e, ast.BinOp) and isinstance(e.op, (ast.Add, ast.Sub)) and (norm(e.left) in self.counters or norm(e.left) == self.depth):
            return UNKNOWN
        raise Undecided(f"expression `{norm(e)[:50]}`")

    def truth(self, e, env):
        v = self.ev(e, env)
        return UNKNOWN if v is UNKNOWN else bool(v)

    # ---- statements: -> list of (env, depth step, broke)
    def run(self, stmts, env, step):
        states = [(env, step, False)]
        for st in stmts:
            nxt = []
            for en, sp, br in states:
                if br:
                    nxt.append((en, sp, br))
                    continue
                nxt += self.stmt(st, en, sp)
            states = nxt
            if len(states) > 64:
                raise Undecided("too many abstract paths")
        return states

    def stmt(self, st, env, step):
        if isinstance(st, (ast.Pass, ast.Expr)):
            if isinstance(st, ast.Expr) and not isinstance(st.value, (ast.Constant,)) and not (isinstance(st.value, ast.Call) and norm(st.value.func).split(".")[0] in ("logger", "logging")):
                raise Undecided(f"statement `{norm(st)[:40]}`")
            return [(env, step, False)]
        if isinstance(st, ast.Break):
            return [(env, step, True)]
        if isinstance(st, ast.Continue):
            return [(env, step, "continue")]
        if isinstance(st, ast.If):
            t = self.truth(st.test, env)
            out = []
            if t is not False:
                out += self.run(st.body, dict(env), step)
            if t is not True:
                out += self.run(st.orelse, dict(env), step)
            return out
        if isinstance(st, (ast.Assign, ast.AnnAssign, ast.AugAssign)):
            tg = st.targets[0] if isinstance(st, ast.Assign) and len(st.targets) == 1 else getattr(st, "target", None)
            if not isinstance(tg, ast.Name):
                raise Undecided(f"assignment `{norm(st)[:40]}`")
            name = tg.id
            if name == self.depth:
                d = None
                if isinstance(st, ast.AugAssign) and isinstance(st.value, ast.Constant) and st.value.value == 1 and isinstance(st.op, (ast.Add, ast.Sub)):
                    d = 1 if isinstance(st.op, ast.Add) else -1
                elif isinstance(st, ast.Assign) and isinstance(st.value, ast.BinOp) and norm(st.value.left) == name and isinstance(st.value.right, ast.Constant) and st.value.right.value == 1 and isinstance(st.value.op, (ast.Add, ast.Sub)):
                    d = 1 if isinstance(st.value.op, ast.Add) else -1
                if d is None:
                    raise Undecided(f"depth update `{norm(st)[:40]}`")
                return [(env, step + d, False)]
            if name in self.counters:
                return [(env, step, False)]
            if isinstance(st, ast.AugAssign) or st.value is None:
                raise Undecided(f"assignment `{norm(st)[:40]}`")
            v = self.ev(st.value, env)
            if v is UNKNOWN:
                raise Undecided(f"`{name}` is given an unknown value by `{norm(st)[:40]}`")
            env = dict(env)
            env[name] = v
            return [(env, step, False)]
        raise Undecided(f"statement {type(st).__name__}")


def analyse(loop, init_env, depth, open_ch, close_ch):
    """-> list of (state description, class, prev class, what the scanner does, what the reference does) disagreements;
    raises Undecided when the body leaves the interpreted fragment"""
    ch = loop.target.id if isinstance(loop.target, ast.Name) else (loop.target.elts[-1].id if isinstance(loop.target, ast.Tuple) and isinstance(loop.target.elts[-1], ast.Name) else None)
    if ch is None:
        raise Undecided("loop target")
    assigned = {}
    for n in ast.walk(loop):
        if isinstance(n, (ast.Assign, ast.AnnAssign, ast.AugAssign)):
            t = n.targets[0] if isinstance(n, ast.Assign) and len(n.targets) == 1 else getattr(n, "target", None)
            if isinstance(t, ast.Name):
                assigned.setdefault(t.id, []).append(n)
    counters = set()
    if isinstance(loop.target, ast.Tuple):
        counters |= {e.id for e in loop.target.elts[:-1] if isinstance(e, ast.Name)}
    for nm, ds in assigned.items():
        if nm != depth and all(isinstance(d, ast.AugAssign) or (isinstance(d, ast.Assign) and isinstance(d.value, ast.BinOp) and norm(d.value.left) == nm) for d in ds):
            counters.add(nm)
    tracked = [nm for nm in assigned if nm != depth and nm not in counters]
    for nm in tracked:
        if nm not in init_env:
            raise Undecided(f"`{nm}` has no constant initial value before the loop")
    cls = classes(open_ch, close_ch)
    it = Interp(loop.body, ch, depth, tracked, counters)
    start = tuple(sorted((k, init_env[k]) for k in tracked))
    rel = {start: "OUT"}
    todo = [start]
    bad = []
    seen = set()
    # the previous-character variable: bound to the loop character by a statement of the loop body itself (every round)
    prev_names = [nm for nm in tracked if any(isinstance(d, ast.Assign) and isinstance(d.value, ast.Name) and d.value.id == ch and any(d is b for b in loop.body) for d in assigned[nm])]
    while todo:
        s = todo.pop()
        if s in seen:
            continue
        seen.add(s)
        if len(seen) > 400:
            raise Undecided("state space too large")
        q = rel[s]
        env0 = dict(s)
        # the class of the previous character is whatever the prev-char variables hold (None at the start)
        pv = None
        for pn in prev_names:
            v = env0.get(pn)
            pv = next((k for k, r in cls.items() if r == v), None) if isinstance(v, str) else None
        for cname, rep_ch in cls.items():
            env = dict(env0)
            env[ch] = rep_ch
            outs = it.run(loop.body, env, 0)
            q2, step_ref = ref_step(q, cname, pv)
            for en, step, br in outs:
                s2 = tuple(sorted((k, en[k]) for k in tracked))
                if br is True:
                    # leaving the loop: only the step of this round matters
                    if step != step_ref:
                        bad.append((dict(s), cname, pv, f"depth step {step:+d}", f"depth step {step_ref:+d} (state {q})"))
                    continue
                if step != step_ref:
                    bad.append((dict(s), cname, pv, f"depth step {step:+d}", f"depth step {step_ref:+d} (state {q})"))
                if br == "continue" and prev_names:
                    # the previous-character variable was not updated this round: the escape test of the next round looks at an older character
                    if any(en.get(pn) != rep_ch for pn in prev_names):
                        bad.append((dict(s), cname, pv, "round ends without recording the character as the previous one", "previous character recorded every round"))
                if s2 in rel and rel[s2] != q2:
                    bad.append((dict(s), cname, pv, f"goes to the values {dict(s2)} (which stand for {rel[s2]})", f"reference goes to {q2}"))
                    continue
                if s2 not in rel:
                    rel[s2] = q2
                    todo.append(s2)
        if len(bad) > 20:
            break
    return bad, len(seen), tracked
