"""E3 — embedded-query model.

(a) sqlite: every string reaching ``.execute`` / ``.executemany`` is constant-folded and
    parsed with a small grammar for the SQL subset the repo uses; each ``?`` is numbered
    in textual order and bound to the matching expression of the parameter list, which is
    traced back (reaching definitions inside the function) to a method parameter or a
    computed local.
(b) peewee: query-builder call chains are lifted to the same kind of descriptor.
Anything outside the modelled subset raises AnalysisError (exit 2), never a verdict.
"""
from __future__ import annotations

import ast
import glob
import sys

from .core import AnalysisError
from .model import norm, parent, src, walk_own, walk_with_nested_exprs

_lark = None


def _get_lark():
    global _lark
    if _lark is None:
        try:
            import lark  # noqa
        except ImportError:
            wheels = glob.glob("/opt/veriftools/wheels/lark-*.whl")
            if not wheels:
                raise AnalysisError("lark wheel not found under /opt/veriftools/wheels")
            sys.path.insert(0, wheels[0])
            import lark  # noqa
        _lark = lark
    return _lark


GRAMMAR = r"""
start: stmt ";"?
?stmt: create_table | create_index | pragma | vacuum | insert | update | delete | select
create_table: "CREATE"i "TABLE"i ("IF"i "NOT"i "EXISTS"i)? NAME "(" coldef ("," coldef)* ("," (fk | check_c))* ")"
check_c: "CHECK"i "(" CHECKBODY ")"
coldef: NAME TYPE colopt*
colopt: "CHECK"i "(" CHECKBODY ")" -> colcheck | "PRIMARY"i "KEY"i -> pk | "AUTOINCREMENT"i -> autoinc | "UNIQUE"i -> unique | "NOT"i "NULL"i -> notnull | "COLLATE"i NAME -> collate | "DEFAULT"i (NUMBER | STRING | NAME) -> default
fk: "FOREIGN"i "KEY"i "(" NAME ")" "REFERENCES"i NAME "(" NAME ")"
create_index: "CREATE"i UNIQUE? "INDEX"i ("IF"i "NOT"i "EXISTS"i)? NAME "ON"i NAME "(" NAME ("," NAME)* ")"
pragma: "PRAGMA"i NAME ("=" (NAME | NUMBER) | "(" (NAME | NUMBER) ")")?
vacuum: "VACUUM"i
insert: "INSERT"i (OR_REPLACE)? "INTO"i NAME "(" NAME ("," NAME)* ")" "VALUES"i "(" expr ("," expr)* ")" upsert?
upsert: "ON"i "CONFLICT"i conflict_target? "DO"i (NOTHING | "UPDATE"i "SET"i assign ("," assign)* where?)
conflict_target: "(" NAME ("," NAME)* ")"
update: "UPDATE"i NAME "SET"i (SETLIST | assign ("," assign)*) updfrom? where?
updfrom: "FROM"i NAME
assign: NAME "=" expr
delete: "DELETE"i "FROM"i NAME where?
select: "SELECT"i selcols "FROM"i NAME NAME? where? orderby? limit?
selcols: selcol ("," selcol)*
?selcol: func | colref | STAR | NUMBER
func: NAME "(" (STAR | colref) ")"
where: "WHERE"i cond (BOOL cond)*
cond: expr CMP expr | expr "IN"i "(" select ")" -> in_cond | expr "IN"i "(" expr ("," expr)* ")" -> in_list
orderby: "ORDER"i "BY"i ordkey ("," ordkey)*
ordkey: colref (ASC|DESC)?
limit: "LIMIT"i expr
?expr: atom | arith
arith: aterm (ARITH aterm)+
?aterm: atom | "(" arith ")"
?atom: PARAM | NUMBER | colref | func | "(" select ")" -> subselect
colref: NAME ("." NAME)?
CHECKBODY: /[^()]+/
UNIQUE: "UNIQUE"i
NOTHING: "NOTHING"i
OR_REPLACE: "OR"i /\s+/ ("REPLACE"i | "ROLLBACK"i | "ABORT"i | "FAIL"i | "IGNORE"i)
BOOL: "AND"i | "OR"i
ASC: "ASC"i
DESC: "DESC"i
STAR: "*"
ARITH: "+" | "-" | "*" | "/"
PARAM: "?" | /:[A-Za-z_][A-Za-z_0-9]*/
SETLIST: "@SETLIST@"
CMP: ">=" | "<=" | "!=" | "<>" | "==" | "=" | "<" | ">" | "LIKE"i | "GLOB"i
TYPE: "INTEGER"i | "TEXT"i | "REAL"i
NAME: /(?!(?i:WHERE|AND|OR|ORDER|LIMIT|FROM|SET|VALUES|IN|SELECT|ASC|DESC|INTO|BY|LIKE|GLOB)\b)[A-Za-z_][A-Za-z_0-9]*/
NUMBER: /-?\d+/
STRING: /'[^']*'/
%import common.WS
%ignore WS
"""

_parser = None


def parser():
    global _parser
    if _parser is None:
        _parser = _get_lark().Lark(GRAMMAR, parser="earley", propagate_positions=True)
    return _parser


# ---------------------------------------------------------------------------
# descriptors


class SExpr:
    def __init__(self, kind, **kw):
        self.kind = kind  # param number col func subselect
        self.__dict__.update(kw)

    def text(self):
        if self.kind == "param":
            return f"?{self.index}"
        if self.kind == "number":
            return str(self.value)
        if self.kind == "col":
            return (self.qual + "." if self.qual else "") + self.name
        if self.kind == "func":
            return f"{self.name}({self.arg})"
        if self.kind == "subselect":
            return "(" + self.stmt.text() + ")"
        if self.kind == "list":
            return "(" + ", ".join(x.text() for x in self.items) + ")"
        if self.kind == "arith":
            out = self.parts[0].text()
            for o, p_ in zip(self.ops, self.parts[1:]):
                out += f" {o} {p_.text()}"
            return "(" + out + ")"
        return "?"


class SCond:
    def __init__(self, left, op, right, conj="AND"):
        self.left, self.op, self.right, self.conj = left, op, right, conj

    def text(self):
        return f"{self.left.text()} {self.op} {self.right.text()}"


class SStmt:
    def __init__(self, kind):
        self.kind = kind
        self.table = None
        self.alias = None
        self.columns = []  # insert column list / select columns (text)
        self.values = []  # insert values (SExpr)
        self.sets = []  # update (col, SExpr)
        self.setlist_dynamic = False
        self.where = []  # list of SCond
        self.has_or = False
        self.order = []  # (col text, 'ASC'|'DESC')
        self.limit = None
        self.coldefs = {}  # create_table: col -> set(options)
        self.index_cols = []
        self.unique_index = False
        self.n_params = 0
        self.from_table = None  # UPDATE t SET ... FROM other
        self.raw = ""

    def text(self):
        if self.kind == "select":
            s = f"SELECT {', '.join(self.columns)} FROM {self.table}"
        elif self.kind == "update":
            s = f"UPDATE {self.table} SET " + ("<dynamic>" if self.setlist_dynamic else ", ".join(f"{c} = {e.text()}" for c, e in self.sets))
        elif self.kind == "delete":
            s = f"DELETE FROM {self.table}"
        elif self.kind == "insert":
            s = f"INSERT INTO {self.table}({', '.join(self.columns)}) VALUES ({', '.join(v.text() for v in self.values)})"
            u = getattr(self, "upsert", None)
            if u:
                s += f" ON CONFLICT({', '.join(u['target'])}) DO " + ("NOTHING" if u["action"] == "nothing" else "UPDATE SET " + ", ".join(f"{c} = {e.text()}" for c, e in u["sets"]))
        else:
            return f"{self.kind.upper()} {self.table or ''}"
        if self.where:
            s += " WHERE " + " AND ".join(c.text() for c in self.where)
        if self.order:
            s += " ORDER BY " + ", ".join(f"{c} {d}" for c, d in self.order)
        if self.limit is not None:
            s += f" LIMIT {self.limit.text()}"
        return s

    def levels(self):
        """All query levels: this statement and every nested sub-select, with depth."""
        out = [(0, self)]

        def sub(e, d):
            if e is not None and e.kind == "subselect":
                for dd, s in e.stmt.levels():
                    out.append((d + 1 + dd, s))

        for c in self.where:
            sub(c.left, 0)
            sub(c.right, 0)
        for v in self.values:
            sub(v, 0)
        for _, e in self.sets:
            sub(e, 0)
        return out

    @property
    def is_dml(self):
        return self.kind in ("insert", "update", "delete")

    @property
    def is_ddl(self):
        return self.kind in ("create_table", "create_index")


def _build(tree):
    lark = _get_lark()
    Tree, Token = lark.Tree, lark.Token
    params = []

    def collect_params(t):
        for tok in t.scan_values(lambda v: isinstance(v, Token) and v.type == "PARAM"):
            params.append(tok.start_pos)

    collect_params(tree)
    params.sort()
    pindex = {p: i for i, p in enumerate(params)}
    pnames = {}
    for tok in tree.scan_values(lambda v: isinstance(v, Token) and v.type == "PARAM"):
        if str(tok).startswith(":"):
            pnames[pindex[tok.start_pos]] = str(tok)[1:]

    def expr(t):
        if isinstance(t, Token):
            if t.type == "PARAM":
                return SExpr("param", index=pindex[t.start_pos])
            if t.type == "NUMBER":
                return SExpr("number", value=int(t))
            raise AnalysisError(f"unexpected SQL token {t!r}")
        if t.data == "colref":
            names = [str(x) for x in t.children]
            return SExpr("col", name=names[-1], qual=names[0] if len(names) == 2 else None)
        if t.data == "func":
            a = t.children[1]
            arg = "*" if isinstance(a, Token) else expr(a).text()
            return SExpr("func", name=str(t.children[0]).lower(), arg=arg)
        if t.data == "subselect":
            return SExpr("subselect", stmt=stmt(t.children[0]))
        if t.data == "arith":
            # column / parameter arithmetic: kept as an opaque computed value (no rule takes it for a plain parameter or column)
            parts = [expr(c) for c in t.children if not (isinstance(c, Token) and c.type == "ARITH")]
            ops = [str(c) for c in t.children if isinstance(c, Token) and c.type == "ARITH"]
            return SExpr("arith", parts=parts, ops=ops)
        raise AnalysisError(f"unexpected SQL expression {t.data}")

    def where(t, st):
        conj = "AND"
        for c in t.children:
            if isinstance(c, Token):
                conj = str(c).upper()
                if conj == "OR":
                    st.has_or = True
                continue
            if c.data == "cond":
                l, op, r = c.children
                st.where.append(SCond(expr(l), str(op), expr(r), conj))
            elif c.data == "in_cond":
                l, sel = c.children
                st.where.append(SCond(expr(l), "IN", SExpr("subselect", stmt=stmt(sel)), conj))
            elif c.data == "in_list":
                st.where.append(SCond(expr(c.children[0]), "IN", SExpr("list", items=[expr(x) for x in c.children[1:]]), conj))

    def stmt(t):
        st = SStmt(t.data)
        ch = t.children
        if t.data == "select":
            cols = ch[0]
            col_items = cols.children if isinstance(cols, Tree) and cols.data == "selcols" else [cols]
            for c in col_items:
                st.columns.append(("*" if c.type == "STAR" else str(c)) if isinstance(c, Token) else expr(c).text())
            rest = ch[1:]
            names = [x for x in rest if isinstance(x, Token) and x.type == "NAME"]
            st.table = str(names[0])
            if len(names) > 1:
                st.alias = str(names[1])
            for c in rest:
                if isinstance(c, Tree):
                    if c.data == "where":
                        where(c, st)
                    elif c.data == "orderby":
                        for k in c.children:
                            col = expr(k.children[0]).text()
                            d = str(k.children[1]).upper() if len(k.children) > 1 else "ASC"
                            st.order.append((col, d))
                    elif c.data == "limit":
                        st.limit = expr(c.children[0])
        elif t.data == "insert":
            toks = [x for x in ch if isinstance(x, Token) and x.type == "NAME"]
            st.table = str(toks[0])
            st.columns = [str(x) for x in toks[1:]]
            for x in ch:
                if isinstance(x, Token) and x.type == "OR_REPLACE":
                    act = str(x).split()[-1].upper()
                    st.on_conflict = act
                    if act == "REPLACE":
                        st.or_replace = True
            ups = [x for x in ch if isinstance(x, Tree) and x.data == "upsert"]
            st.upsert = None
            if ups:
                u = {"target": [], "action": "update", "sets": [], "where": SStmt("upsert")}
                for c in ups[0].children:
                    if isinstance(c, Token) and c.type == "NOTHING":
                        u["action"] = "nothing"
                    elif isinstance(c, Tree) and c.data == "conflict_target":
                        u["target"] = [str(x) for x in c.children]
                    elif isinstance(c, Tree) and c.data == "assign":
                        u["sets"].append((str(c.children[0]), expr(c.children[1])))
                    elif isinstance(c, Tree) and c.data == "where":
                        where(c, u["where"])
                st.upsert = u
            vals = [x for x in ch if not (isinstance(x, Token) and x.type in ("NAME", "OR_REPLACE")) and not (isinstance(x, Tree) and x.data == "upsert")]
            st.values = [expr(v) for v in vals]
        elif t.data == "update":
            st.table = str(ch[0])
            for c in ch[1:]:
                if isinstance(c, Token) and c.type == "SETLIST":
                    st.setlist_dynamic = True
                elif isinstance(c, Tree) and c.data == "assign":
                    st.sets.append((str(c.children[0]), expr(c.children[1])))
                elif isinstance(c, Tree) and c.data == "updfrom":
                    st.from_table = str(c.children[0])
                elif isinstance(c, Tree) and c.data == "where":
                    where(c, st)
        elif t.data == "delete":
            st.table = str(ch[0])
            for c in ch[1:]:
                if isinstance(c, Tree) and c.data == "where":
                    where(c, st)
        elif t.data == "create_table":
            st.table = str(ch[0])
            for c in ch[1:]:
                if isinstance(c, Tree) and c.data == "coldef":
                    name = str(c.children[0])
                    opts = {str(c.children[1]).upper()}
                    for o in c.children[2:]:
                        if isinstance(o, Tree) and o.data == "colcheck":
                            st.__dict__.setdefault("checks", []).append(" ".join(str(o.children[0]).split()))
                        elif isinstance(o, Tree) and o.data in ("collate", "default"):
                            opts.add(f"{o.data}:{str(o.children[0]).upper()}")
                        else:
                            opts.add(o.data if isinstance(o, Tree) else str(o))
                    st.coldefs[name] = opts
                elif isinstance(c, Tree) and c.data == "check_c":
                    st.__dict__.setdefault("checks", []).append(" ".join(str(c.children[0]).split()))
        elif t.data == "create_index":
            toks = [x for x in ch if isinstance(x, Token)]
            st.unique_index = any(x.type == "UNIQUE" for x in toks)
            names = [str(x) for x in toks if x.type == "NAME"]
            st.index_name, st.table, st.index_cols = names[0], names[1], names[2:]
        elif t.data == "pragma":
            st.table = str(ch[0])
            st.pragma_arg = str(ch[1]) if len(ch) > 1 else None
        return st

    st = stmt(tree.children[0])
    st.n_params = len(params)
    st.param_names = pnames  # placeholder index -> name, for :name placeholders
    return st


TXN_RE = None


def parse_sql(text):
    import re

    m = re.match(r"^\s*(SAVEPOINT|RELEASE|ROLLBACK|BEGIN|COMMIT|END)\b", text, re.I)
    if m:
        # transaction control: no rows touched; rules that care look at .verb
        st = SStmt("txn")
        st.verb = m.group(1).upper()
        st.to_savepoint = bool(re.match(r"^\s*ROLLBACK\s+(TRANSACTION\s+)?TO\b", text, re.I))
        st.raw = " ".join(text.split())
        return st
    try:
        tree = parser().parse(text)
    except Exception as e:
        raise AnalysisError(f"SQL outside the modelled subset: {' '.join(text.split())[:120]} ({type(e).__name__}: {str(e).splitlines()[0][:80]})")
    st = _build(tree)
    st.raw = " ".join(text.split())
    return st


# ---------------------------------------------------------------------------
# constant folding and binding origins


def local_defs(fi, name):
    """All statements in fi that (re)bind local `name` (not inside nested defs)."""
    out = []
    for n in walk_own(fi.node):
        if isinstance(n, ast.Assign):
            for t in n.targets:
                for nm in ast.walk(t):
                    if isinstance(nm, ast.Name) and nm.id == name and isinstance(nm.ctx, ast.Store):
                        out.append(n)
        elif isinstance(n, (ast.AugAssign, ast.AnnAssign)):
            if isinstance(n.target, ast.Name) and n.target.id == name:
                out.append(n)
        elif isinstance(n, ast.For):  # comprehension targets live in their own scope
            for nm in ast.walk(n.target):
                if isinstance(nm, ast.Name) and nm.id == name and isinstance(nm.ctx, ast.Store):
                    out.append(n)
        elif isinstance(n, ast.With):
            for it in n.items:
                if it.optional_vars is not None:
                    for nm in ast.walk(it.optional_vars):
                        if isinstance(nm, ast.Name) and nm.id == name:
                            out.append(n)
    return out


def two_armed(defs):
    """`if C: x = A else: x = B` (the only two bindings of x, each the only statement of its arm) is x = A if C else B"""
    if len(defs) != 2 or not all(isinstance(x, ast.Assign) and len(x.targets) == 1 and isinstance(x.targets[0], ast.Name) for x in defs):
        return None
    from .model import parent

    p0, p1 = parent(defs[0]), parent(defs[1])
    if p0 is None or p0 is not p1 or not isinstance(p0, ast.If):
        return None
    if len(p0.body) == 1 and len(p0.orelse) == 1 and {id(p0.body[0]), id(p0.orelse[0])} == {id(defs[0]), id(defs[1])}:
        a, b = p0.body[0].value, p0.orelse[0].value
        test = p0.test
        if isinstance(test, ast.UnaryOp) and isinstance(test.op, ast.Not):
            test, a, b = test.operand, b, a
        ie = ast.IfExp(test=test, body=a, orelse=b)
        ast.copy_location(ie, p0)
        ie._parent = p0
        return ie
    return None


def single_def(fi, name):
    """The unique `name = value` assignment of a local, or None."""
    d = local_defs(fi, name)
    if len(d) == 2:
        return two_armed(d)
    if len(d) == 1 and isinstance(d[0], ast.Assign) and len(d[0].targets) == 1 and isinstance(d[0].targets[0], ast.Name):
        return d[0].value
    if len(d) == 1 and isinstance(d[0], ast.AnnAssign) and d[0].value is not None:
        return d[0].value
    return None


REPLICATED = []  # (join expression, text of the sequence whose length gives the number of copies), filled while folding


def fold_str(e, fi, prog, _depth=0):
    """Constant-fold a string expression; None if it is not a compile-time string."""
    if _depth > 10:
        return None
    if isinstance(e, ast.Constant) and isinstance(e.value, str):
        return e.value
    if isinstance(e, ast.BinOp) and isinstance(e.op, ast.Add):
        a, b = fold_str(e.left, fi, prog, _depth + 1), fold_str(e.right, fi, prog, _depth + 1)
        return None if a is None or b is None else a + b
    if isinstance(e, ast.JoinedStr):
        parts = []
        for v in e.values:
            if isinstance(v, ast.Constant):
                parts.append(str(v.value))
            elif isinstance(v, ast.FormattedValue) and v.format_spec is None and v.conversion == -1:
                x = fold_str(v.value, fi, prog, _depth + 1)
                if x is None:
                    return None
                parts.append(x)
            else:
                return None
        return "".join(parts)
    if isinstance(e, ast.Attribute) and isinstance(e.value, ast.Name) and fi.cls is not None and e.value.id in ("self", "cls", fi.cls.name) and e.attr in fi.cls.attrs:
        return fold_str_mod(fi.cls.attrs[e.attr], fi.mod, prog)
    if isinstance(e, ast.Call) and isinstance(e.func, ast.Attribute) and e.func.attr == "format" and not e.keywords:
        base = fold_str(e.func.value, fi, prog, _depth + 1)
        args = [fold_str(a, fi, prog, _depth + 1) for a in e.args]
        if base is not None and all(a is not None for a in args):
            try:
                return base.format(*args)
            except Exception:
                return None
        return None
    if isinstance(e, ast.Name):
        if e.id in fi.params:
            return None
        v = single_def(fi, e.id)
        if v is not None:
            return fold_str(v, fi, prog, _depth + 1)
        if local_defs(fi, e.id):
            return None
        r = prog.lookup(fi, e.id)
        if isinstance(r, tuple) and r[0] == "const":
            return fold_str_mod(r[2], r[1], prog)
        return None
    if isinstance(e, ast.Call) and isinstance(e.func, ast.Attribute) and e.func.attr == "join" and len(e.args) == 1:
        # the one dynamic idiom: ", ".join(f"{u} = ?" for u in updates)
        sep = fold_str(e.func.value, fi, prog, _depth + 1)
        g = e.args[0]
        if sep is not None and sep.strip() == "," and isinstance(g, (ast.GeneratorExp, ast.ListComp)) and len(g.generators) == 1:
            elt = g.elt
            if isinstance(elt, ast.JoinedStr) and len(elt.values) == 2 and isinstance(elt.values[0], ast.FormattedValue) and isinstance(elt.values[1], ast.Constant) and "".join(str(elt.values[1].value).split()) == "=?":
                tgt = g.generators[0].target
                if isinstance(tgt, ast.Name) and isinstance(elt.values[0].value, ast.Name) and elt.values[0].value.id == tgt.id and not g.generators[0].ifs:
                    return "@SETLIST@"
        # SEP.join("?" * len(xs)) / SEP.join(["?"] * len(xs)): one placeholder per element of xs; two copies show how SEP binds
        if sep is not None and isinstance(g, ast.BinOp) and isinstance(g.op, ast.Mult):
            for a_, n_ in ((g.left, g.right), (g.right, g.left)):
                one = a_.elts[0] if isinstance(a_, (ast.List, ast.Tuple)) and len(a_.elts) == 1 else a_
                t_ = fold_str(one, fi, prog, _depth + 1)
                if t_ is not None and (one is not a_ or len(t_) == 1) and isinstance(n_, ast.Call) and norm(n_.func) == "len" and len(n_.args) == 1:
                    REPLICATED.append((e, norm(n_.args[0])))
                    return t_ + sep + t_
        # SEP.join(<constant template> for _ in xs): one or more copies of the template; two copies show how SEP binds
        if sep is not None and isinstance(g, (ast.GeneratorExp, ast.ListComp)) and len(g.generators) == 1 and not g.generators[0].ifs:
            tmpl = fold_str(g.elt, fi, prog, _depth + 1)
            if tmpl is not None:
                return tmpl + sep + tmpl
        return None
    return None


def fold_str_mod(e, mi, prog):
    if isinstance(e, ast.Constant) and isinstance(e.value, str):
        return e.value
    if isinstance(e, ast.JoinedStr):
        parts = []
        for v in e.values:
            if isinstance(v, ast.Constant):
                parts.append(str(v.value))
            elif isinstance(v, ast.FormattedValue) and v.format_spec is None and v.conversion == -1:
                x = fold_str_mod(v.value, mi, prog)
                if x is None:
                    return None
                parts.append(x)
            else:
                return None
        return "".join(parts)
    if isinstance(e, ast.BinOp) and isinstance(e.op, ast.Add):
        a, b = fold_str_mod(e.left, mi, prog), fold_str_mod(e.right, mi, prog)
        return None if a is None or b is None else a + b
    if isinstance(e, ast.Name) and e.id in mi.consts:
        return fold_str_mod(mi.consts[e.id], mi, prog)
    return None


class Origin:
    """Where a bound value comes from."""

    def __init__(self, kind, name=None, expr=None, chain=None):
        self.kind = kind  # param | expr | const
        self.name = name
        self.expr = expr
        self.chain = chain or []

    def __repr__(self):
        if self.kind == "param":
            return f"param:{self.name}"
        return f"{self.kind}:{norm(self.expr) if self.expr is not None else ''}"


def origin(e, fi, _depth=0):
    """Trace an expression to a method parameter (through single-assignment locals)."""
    if isinstance(e, ast.Name):
        defs = local_defs(fi, e.id)
        if e.id in fi.params and not defs:
            return Origin("param", e.id, e)
        if e.id in fi.params and defs:
            # re-bound parameter: only accept rebinding that preserves identity of meaning is unknown
            return Origin("expr", None, e, chain=[norm(d) for d in defs])
        v = single_def(fi, e.id)
        if v is not None and _depth < 6:
            o = origin(v, fi, _depth + 1)
            o.chain = [e.id] + o.chain
            return o
        return Origin("expr", None, e)
    if isinstance(e, ast.Constant):
        return Origin("const", None, e)
    return Origin("expr", None, e)


class SqlSite:
    def __init__(self, fi, call, stmt, bindings, many):
        self.fi = fi
        self.call = call
        self.stmt = stmt
        self.bindings = bindings  # list of ast exprs (per ?), or None when not statically a list
        self.many = many
        self.bind_star = None  # for (*values, x): name of starred prefix
        self.rows_var = None
        self.replicated_over = None
        self.sliced = False  # executemany over a slice of rows_var given in place

    def loc(self):
        return self.fi.loc(self.call)

    def binding_origin(self, i):
        if self.bindings is None and self.bind_star is not None:
            # [a, b, *rest]: the placeholders before the starred part are bound positionally from the start
            elts = self.bind_star.elts
            k = next((j for j, x in enumerate(elts) if isinstance(x, ast.Starred)), len(elts))
            if i < k:
                return origin(elts[i], self.fi)
            # ... and those after it positionally from the end
            tail = len(elts) - k - 1
            n_star = sum(1 for x in elts if isinstance(x, ast.Starred))
            if n_star == 1 and tail and i >= self.stmt.n_params - tail:
                return origin(elts[len(elts) - (self.stmt.n_params - i)], self.fi)
            return None
        if self.bindings is None or i >= len(self.bindings):
            return None
        return origin(self.bindings[i], self.fi)


def flatten_starred(elts):
    """[a, *(b, c), d] -> [a, b, c, d]  (a literal tuple spliced in place, as left by an expanded tuple-returning helper)"""
    out = []
    for x in elts:
        if isinstance(x, ast.Starred) and isinstance(x.value, (ast.Tuple, ast.List)):
            out += flatten_starred(x.value.elts)
        else:
            out.append(x)
    return out


def _rows_tuple(fi, name):
    """executemany(query, rows): find `rows.append((a, b, c))` -> [a, b, c] and the loop it sits in."""
    found = []
    for n in walk_own(fi.node):
        if isinstance(n, ast.Call) and isinstance(n.func, ast.Attribute) and n.func.attr == "append" and isinstance(n.func.value, ast.Name) and n.func.value.id == name:
            if len(n.args) == 1 and isinstance(n.args[0], (ast.Tuple, ast.List)):
                found.append(flatten_starred(n.args[0].elts))
            else:
                return None
    if len(found) == 1:
        return found[0]
    return None


def sql_sites(prog, mod_name="aw_datastore.storages.sqlite"):
    """Every execute/executemany call in the module with its parsed statement and bindings."""
    cache = prog.__dict__.setdefault("_sql_sites", {})
    if mod_name not in cache:
        cache[mod_name] = _sql_sites(prog, mod_name)
    return cache[mod_name]


def _const_prefix(e):
    """leading constant text of an f-string / concatenation"""
    if isinstance(e, ast.Constant) and isinstance(e.value, str):
        return e.value
    if isinstance(e, ast.JoinedStr) and e.values and isinstance(e.values[0], ast.Constant):
        return str(e.values[0].value)
    if isinstance(e, ast.BinOp) and isinstance(e.op, ast.Add):
        return _const_prefix(e.left)
    return None


def _text_table(e, fi, prog):
    """TABLE[key] with TABLE a class-level / module-level dict literal whose values are all string constants -> the values"""
    if not isinstance(e, ast.Subscript):
        return None
    base = e.value
    d = None
    if isinstance(base, ast.Attribute) and isinstance(base.value, ast.Name) and fi.cls is not None and base.value.id in ("self", "cls", fi.cls.name):
        d = fi.cls.attrs.get(base.attr)
    elif isinstance(base, ast.Name):
        d = fi.mod.consts.get(base.id)
    if isinstance(d, ast.Dict) and d.values:
        texts = [fold_str(v, fi, prog) for v in d.values]
        if all(t is not None for t in texts):
            return texts
    return None


def _fold_alternatives(e, fi, prog):
    """texts an expression can take when exactly one Name in it is bound once to `A if c else B` with foldable arms"""
    for _ in range(2):
        if isinstance(e, ast.Name) and isinstance(single_def(fi, e.id), (ast.JoinedStr, ast.BinOp, ast.Call)):
            e = single_def(fi, e.id)
    cands = [n for n in ast.walk(e) if isinstance(n, ast.Name) and isinstance(single_def(fi, n.id), ast.IfExp)]
    ie_nodes = [n for n in ast.walk(e) if isinstance(n, ast.IfExp)]
    if len({n.id for n in cands}) + len(ie_nodes) != 1:
        return None
    if cands:
        name = cands[0].id
        ie = single_def(fi, name)
    else:
        name, ie = None, ie_nodes[0]
    out = []
    for arm in (ie.body, ie.orelse):
        class R(ast.NodeTransformer):
            def visit_Name(self, n):
                return ast.copy_location(arm, n) if name is not None and n.id == name else n

            def visit_IfExp(self, n):
                return arm if n is ie else self.generic_visit(n)

        e2 = R().visit(ast.parse(ast.unparse(e), mode="eval").body) if name is not None else None
        if name is None:
            class R2(ast.NodeTransformer):
                def visit_IfExp(self, n):
                    return ast.parse(ast.unparse(arm), mode="eval").body
            e2 = R2().visit(ast.parse(ast.unparse(e), mode="eval").body)
        ast.fix_missing_locations(e2)
        t = fold_str(e2, fi, prog)
        if t is None:
            return None
        out.append(t)
    return out


def _sql_sites(prog, mod_name):
    mi = prog.module(mod_name)
    sites = []
    for fi in prog.funcs.values():
        if fi.mod is not mi:
            continue
        for call in [n for n in walk_with_nested_exprs(fi.node) if isinstance(n, ast.Call)]:
            f = call.func
            if not (isinstance(f, ast.Attribute) and f.attr in ("execute", "executemany", "executescript")):
                continue
            if not call.args:
                continue
            n_repl = len(REPLICATED)
            text = fold_str(call.args[0], fi, prog)
            repl_of = REPLICATED[n_repl][1] if len(REPLICATED) > n_repl else None
            alts = _text_table(call.args[0], fi, prog) if text is None else None
            if alts:
                # the statement is picked from a literal table of statements: one site per entry (same call, same bindings)
                for t_ in alts:
                    st_ = parse_sql(t_)
                    site_ = SqlSite(fi, call, st_, None, f.attr == "executemany")
                    b_ = call.args[1] if len(call.args) > 1 else None
                    site_.bindings = list(b_.elts) if isinstance(b_, (ast.List, ast.Tuple)) and not any(isinstance(x, ast.Starred) for x in b_.elts) else ([] if b_ is None else None)
                    if site_.bindings is not None and len(site_.bindings) != st_.n_params:
                        raise AnalysisError(f"{fi.loc(call)} {fi.short}: {st_.n_params} placeholders but {len(site_.bindings)} bound expressions")
                    site_.from_table = True
                    sites.append(site_)
                continue
            if text is None:
                # text with one conditional part (x = "A" if c else "B"; f"... {x} ..."): one site per alternative
                alts2 = _fold_alternatives(call.args[0], fi, prog)
                if alts2:
                    for t_ in alts2:
                        st_ = parse_sql(t_)
                        site_ = SqlSite(fi, call, st_, None, f.attr == "executemany")
                        b_ = call.args[1] if len(call.args) > 1 else None
                        site_.bindings = list(b_.elts) if isinstance(b_, (ast.List, ast.Tuple)) and not any(isinstance(x, ast.Starred) for x in b_.elts) else ([] if b_ is None else None)
                        site_.from_table = True
                        sites.append(site_)
                    continue
            if text is None:
                pre = _const_prefix(call.args[0])
                if pre and pre.split() and pre.split()[0].upper() in ("SAVEPOINT", "RELEASE", "ROLLBACK", "BEGIN", "COMMIT", "END"):
                    site_ = SqlSite(fi, call, parse_sql(pre), [], False)
                    sites.append(site_)
                    continue
            if text is None:
                raise AnalysisError(f"{fi.loc(call)} {fi.short}: SQL text of .{f.attr}() is not a compile-time string: {norm(call.args[0])[:80]}", fi.loc(call))
            if f.attr == "executescript":
                raise AnalysisError(f"{fi.loc(call)}: executescript not modelled")
            st = parse_sql(text)
            many = f.attr == "executemany"
            bindings = None
            site = SqlSite(fi, call, st, None, many)
            site.replicated_over = repl_of  # the statement has one placeholder per element of this sequence: it touches up to len() rows
            if len(call.args) > 1:
                b = call.args[1]
                if many and isinstance(b, ast.Subscript) and isinstance(b.slice, ast.Slice) and isinstance(b.value, ast.Name):
                    # executemany(query, rows[a:b]): a part of the rows list, written with the statement: same row shape
                    site.rows_var = b.value.id
                    site.sliced = True
                    elts = _rows_tuple(fi, b.value.id)
                    if elts is not None:
                        bindings = list(elts)
                if isinstance(b, ast.Name):
                    v = single_def(fi, b.id)
                    if many:
                        rv = b.id
                        # a chunk of the rows list (rows[i : i + n]) is written with the statement: same row shape
                        hops = 0
                        while isinstance(v, ast.Subscript) and isinstance(v.slice, ast.Slice) and isinstance(v.value, ast.Name) and hops < 3:
                            rv = v.value.id
                            v = single_def(fi, rv)
                            hops += 1
                        site.rows_var = rv
                        site.chunk_var = b.id if rv != b.id else None
                        elts = _rows_tuple(fi, rv)
                        if elts is not None:
                            bindings = list(elts)
                    elif isinstance(v, (ast.List, ast.Tuple)):
                        b = v
                if isinstance(b, ast.Name) and not many and isinstance(single_def(fi, b.id), ast.Dict):
                    b = single_def(fi, b.id)
                if isinstance(b, ast.Call) and isinstance(b.func, ast.Name) and b.func.id == "dict" and not b.args and all(k.arg for k in b.keywords):
                    b = ast.copy_location(ast.Dict(keys=[ast.Constant(value=k.arg) for k in b.keywords], values=[k.value for k in b.keywords]), b)
                if isinstance(b, ast.Dict) and getattr(st, "param_names", None) and len(st.param_names) == st.n_params and all(isinstance(k, ast.Constant) for k in b.keys):
                    # named placeholders: one bound expression per placeholder occurrence, in order of appearance
                    table = {k.value: v for k, v in zip(b.keys, b.values)}
                    if all(st.param_names[i] in table for i in range(st.n_params)):
                        b = ast.copy_location(ast.List(elts=[table[st.param_names[i]] for i in range(st.n_params)], ctx=ast.Load()), b)
                if isinstance(b, ast.BinOp) and isinstance(b.op, ast.Add) and isinstance(b.right, (ast.Tuple, ast.List)) and not isinstance(b.left, (ast.Tuple, ast.List)):
                    # values + (bucket_id,)  ==  (*values, bucket_id)
                    b = ast.copy_location(ast.Tuple(elts=[ast.Starred(value=b.left, ctx=ast.Load())] + list(b.right.elts), ctx=ast.Load()), b)
                if isinstance(b, (ast.List, ast.Tuple)):
                    # [*before, x, *after] with before / after locals bound once to literal tuples (as left by an expanded helper)
                    elts_ = []
                    for x_ in b.elts:
                        if isinstance(x_, ast.Starred) and isinstance(x_.value, ast.Name) and isinstance(single_def(fi, x_.value.id), (ast.Tuple, ast.List)):
                            x_ = ast.copy_location(ast.Starred(value=single_def(fi, x_.value.id), ctx=ast.Load()), x_)
                        elts_.append(x_)
                    b = ast.copy_location(type(b)(elts=flatten_starred(elts_), ctx=ast.Load()), b)
                    if any(isinstance(x, ast.Starred) for x in b.elts):
                        # (*values, bucket_id): only the trailing fixed part is positional from the end
                        site.bind_star = b
                        bindings = None
                    else:
                        bindings = list(b.elts)
            else:
                bindings = []
            site.bindings = bindings
            if bindings is not None and len(bindings) != st.n_params:
                raise AnalysisError(f"{fi.loc(call)} {fi.short}: {st.n_params} placeholders but {len(bindings)} bound expressions")
            sites.append(site)
    sites.sort(key=lambda s: s.call.lineno)
    return sites


# ---------------------------------------------------------------------------
# peewee chains


class PwChain:
    """Model.op(...).where(c)...order_by(k).limit(n).<terminal>()"""

    def __init__(self, fi, root_call):
        self.fi = fi
        self.node = root_call
        self.model = None
        self.op = None  # select delete get create insert_many
        self.op_call = None
        self.wheres = []  # ast exprs
        self.order = []  # ast exprs
        self.limit = None
        self.terminal = None  # get count execute None
        self.extra_calls = []

    def loc(self):
        return self.fi.loc(self.node)

    def text(self):
        s = f"{self.model}.{self.op}()"
        for w in self.wheres:
            s += f".where({norm(w)})"
        for o in self.order:
            s += f".order_by({norm(o)})"
        if self.limit is not None:
            s += f".limit({norm(self.limit)})"
        if self.terminal:
            s += f".{self.terminal}()"
        return s


MODELS = ("EventModel", "BucketModel")
PW_OPS = ("select", "delete", "get", "create", "insert_many", "update", "insert", "get_or_none", "get_by_id", "delete_by_id", "replace", "replace_many", "bulk_create", "bulk_update", "delete_instance", "truncate_table", "drop_table")
PW_CHAIN = ("where", "order_by", "limit", "get", "count", "execute", "first", "offset", "dicts", "tuples", "iterator", "exists", "scalar", "on_conflict", "on_conflict_replace", "on_conflict_ignore", "returning", "get_or_none")


def _conjuncts(args):
    """where(a & b, c) restricts by a, b and c: peewee's `&` on expressions is AND"""
    out = []
    for a in args:
        if isinstance(a, ast.BinOp) and isinstance(a.op, ast.BitAnd):
            out += _conjuncts([a.left, a.right])
        else:
            out.append(a)
    return out


def _chain_root(call):
    """If `call` is the outermost call of a Model.op(...).x().y() chain, return the list of calls innermost first."""
    calls = []
    n = call
    while isinstance(n, ast.Call) and isinstance(n.func, ast.Attribute):
        calls.append(n)
        n = n.func.value
    if isinstance(n, ast.Name) and n.id in MODELS and calls:
        return n.id, calls[::-1]
    return None, None


def peewee_chains(prog, mod_name="aw_datastore.storages.peewee"):
    """All query-builder chains rooted at EventModel / BucketModel in the module (any function)."""
    cache = prog.__dict__.setdefault("_pw_chains", {})
    if mod_name not in cache:
        cache[mod_name] = _peewee_chains(prog, mod_name)
    return cache[mod_name]


def _peewee_chains(prog, mod_name):
    mi = prog.module(mod_name)
    chains = []
    for fi in prog.funcs.values():
        if fi.mod is not mi:
            continue
        seen_inner = set()
        for call in [n for n in walk_with_nested_exprs(fi.node) if isinstance(n, ast.Call)]:
            # only outermost calls of a chain
            p = parent(call)
            if isinstance(p, ast.Attribute) and isinstance(parent(p), ast.Call) and parent(p).func is p:
                continue
            model, calls = _chain_root(call)
            if model is None:
                continue
            first = calls[0]
            op = first.func.attr
            if op in ("json", "from_event", "create_table"):
                continue
            ch = PwChain(fi, call)
            ch.model = model
            ch.op = op
            ch.op_call = first
            if op not in PW_OPS:
                raise AnalysisError(f"{fi.loc(call)} {fi.short}: peewee operation {model}.{op} is not modelled")
            if op == "get":
                ch.wheres += _conjuncts(first.args)
                ch.terminal = "get"
            for c in calls[1:]:
                a = c.func.attr
                if a == "where":
                    ch.wheres += _conjuncts(c.args)
                elif a == "order_by":
                    ch.order += list(c.args)
                elif a == "limit":
                    ch.limit = c.args[0] if c.args else None
                elif a in ("get", "count", "execute", "first", "exists", "scalar", "get_or_none"):
                    ch.terminal = a
                elif a in PW_CHAIN:
                    ch.extra_calls.append(a)
                elif ch.terminal is not None:
                    ch.extra_calls.append("post:" + a)  # e.g. .get(...).json(): acts on the fetched instance
                else:
                    raise AnalysisError(f"{fi.loc(c)} {fi.short}: peewee chain method .{a}() is not modelled")
            chains.append(ch)
    chains.sort(key=lambda c: c.node.lineno)
    return chains
