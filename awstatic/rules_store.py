"""Rules shared by the datastore properties (DESIGN §2): SCOPE, FORWARD, ORDER, LAST, PRED,
LIMIT, CODEC.  Each function records obligations on the Report it is given."""
from __future__ import annotations

import ast

from .affine import Env, Form, Lit, NonAffine, lin, lit_from_forms, literal
from .cfg import cfg_of
from .core import AnalysisError
from .model import norm, parent, src, walk_own, walk_with_nested_exprs
from .sqlmodel import local_defs, origin, peewee_chains, single_def, sql_sites

STORAGE_CLASSES = ("MemoryStorage", "SqliteStorage", "PeeweeStorage")
BUCKET_PARAM_NAMES = ("bucket_id", "bucket")
IFACE = ["buckets", "create_bucket", "update_bucket", "delete_bucket", "get_metadata", "get_event", "get_events", "get_eventcount", "insert_one", "insert_many", "delete", "replace", "replace_last"]


def bparam(fi):
    """The bucket parameter of a storage method (first parameter after self), or None."""
    ps = fi.params[1:] if fi.params and fi.params[0] in ("self", "cls") else fi.params
    if ps and ps[0] in BUCKET_PARAM_NAMES:
        return ps[0]
    return None


def is_param_ref(e, fi, name):
    """e is the (never re-bound) parameter `name` of fi."""
    return isinstance(e, ast.Name) and e.id == name and name in fi.params and not local_defs(fi, name)


# ---------------------------------------------------------------------------
# SCOPE — sqlite


def _is_scope_subselect(e, site, bp):
    """(SELECT rowid FROM buckets [alias] WHERE [alias.]id = ?k) with ?k bound to the bucket parameter."""
    if e is None or e.kind != "subselect":
        return False, "not a sub-select"
    s = e.stmt
    if s.table != "buckets" or s.kind != "select":
        return False, f"sub-select ranges over {s.table}"
    if [c.split(".")[-1] for c in s.columns] != ["rowid"]:
        return False, f"sub-select returns {s.columns}, not the bucket's rowid"
    if s.has_or or len(s.where) != 1:
        return False, "sub-select WHERE is not the single conjunct id = ?"
    c = s.where[0]
    col, par = (c.left, c.right) if c.left.kind == "col" else (c.right, c.left)
    if not (col.kind == "col" and col.name == "id" and c.op in ("=", "==") and par.kind == "param"):
        return False, f"sub-select WHERE is `{c.text()}`, not id = ?"
    o = site.binding_origin(par.index)
    if o is None or o.kind != "param" or o.name != bp:
        return False, f"placeholder {par.index} of the bucket sub-select is bound to {o!r}, not to the bucket parameter `{bp}`"
    return True, ""


def _events_level_scoped(lvl, site, bp):
    if lvl.has_or:
        # a AND b OR c  ==  (a AND b) OR c : the rows are those of ANY disjunct, so every disjunct must be scoped on its own
        groups, cur = [], []
        for c in lvl.where:
            if c.conj == "OR" and cur:
                groups.append(cur)
                cur = []
            cur.append(c)
        groups.append(cur)

        class _L:
            pass

        for gi, grp in enumerate(groups):
            sub = _L()
            sub.has_or, sub.where = False, grp
            ok, why = _events_level_scoped(sub, site, bp)
            if not ok:
                return False, f"the WHERE is a disjunction (AND binds tighter than OR) and its alternative `{' AND '.join(c.text() for c in grp)[:80]}` is not restricted to the bucket: {why}"
        return True, ""
    why = "no conjunct restricts bucketrow to the addressed bucket"
    if getattr(lvl, "from_table", None) == "buckets":
        # UPDATE events SET ... FROM buckets WHERE ...: a join; scoped iff the WHERE ties events.bucketrow to buckets.rowid
        # AND picks the bucket by id = ?bucket (without the join predicate every events row is paired with the chosen bucket)
        join = any({(c.left.kind, c.left.name), (c.right.kind, c.right.name)} == {("col", "bucketrow"), ("col", "rowid")} and c.op in ("=", "==") for c in lvl.where if c.left.kind == "col" and c.right.kind == "col")
        pick = False
        for c in lvl.where:
            col, par = (c.left, c.right) if c.left.kind == "col" else (c.right, c.left)
            if col.kind == "col" and col.name == "id" and getattr(col, "qual", None) == "buckets" and par.kind == "param" and c.op in ("=", "=="):
                o = site.binding_origin(par.index)
                pick = o is not None and o.kind == "param" and o.name == bp
        if join and pick:
            return True, ""
        return False, ("UPDATE ... FROM buckets without the join predicate events.bucketrow = buckets.rowid: every events row is paired with the chosen bucket row, so the remaining condition (the event id) selects the row whichever bucket it belongs to" if not join else "the joined bucket row is not selected by id = ?bucket")
    for c in lvl.where:
        col, other = (c.left, c.right) if (c.left.kind == "col" and c.left.name == "bucketrow") else (c.right, c.left)
        if col.kind == "col" and col.name == "bucketrow" and c.op in ("=", "==", "IN"):
            ok, w = _is_scope_subselect(other, site, bp)
            if ok:
                return True, ""
            why = w
        # id = (SELECT id FROM events WHERE <scoped> ...): the primary key is drawn from the addressed bucket
        col, other = (c.left, c.right) if (c.left.kind == "col" and c.left.name == "id") else (c.right, c.left)
        if col.kind == "col" and col.name == "id" and c.op in ("=", "==", "IN") and other.kind == "subselect":
            sub = other.stmt
            if sub.kind == "select" and sub.table == "events" and [x.split(".")[-1] for x in sub.columns] == ["id"]:
                ok, w = _events_level_scoped(sub, site, bp)
                if ok:
                    return True, ""
    return False, why


def scope_sqlite(prog, rep, methods=None, rule="SCOPE"):
    rep.rule(rule, "in a storage method that takes the bucket id, every statement, at every query level that ranges over event rows, carries the conjunct 'row belongs to the addressed bucket' with the bucket key bound to that parameter (sqlite: bucketrow = (SELECT rowid FROM buckets WHERE id = ?bucket); INSERT: the bucketrow value is that sub-select; bucket-level statements: WHERE id = ?bucket). peewee: .where(EventModel.bucket == self.bucket_keys[bucket]) or save() on an instance that came from such a select. memory: self.db / self._metadata are indexed by the bucket parameter only.")
    cls = prog.cls("SqliteStorage")
    sites = [s for s in sql_sites(prog) if s.fi.cls is cls]
    rep.floor("sqlite execute sites in SqliteStorage", len(sites), 14)
    n_levels = 0
    for s in sites:
        fi = s.fi
        if methods is not None and fi.name not in methods:
            continue
        st = s.stmt
        if st.kind in ("create_table", "create_index", "pragma"):
            continue
        bp = bparam(fi)
        rep.unit("sql_statements", f"{fi.short}:{s.call.lineno} {st.text()[:140]}")
        if bp is None:
            if st.is_dml:
                rep.violation(rule, fi.short, f"{st.kind.upper()} {st.table}", "DML in a method that is not addressed to a bucket", s.loc())
            else:
                rep.ok(rule, fi.short, f"{st.kind.upper()} {st.table}", "read-only statement in a method without a bucket parameter (listing)", s.loc())
            continue
        for depth, lvl in st.levels():
            cons = f"{lvl.kind.upper()} {lvl.table}/level{depth}"
            if lvl.table == "events":
                n_levels += 1
                if lvl.kind == "insert":
                    if "bucketrow" not in lvl.columns:
                        rep.violation(rule, fi.short, cons, "INSERT does not set bucketrow", s.loc())
                        continue
                    v = lvl.values[lvl.columns.index("bucketrow")]
                    ok, why = _is_scope_subselect(v, s, bp)
                    rep.check(ok, rule, fi.short, cons, "bucketrow value is the addressed bucket's rowid", f"inserted row is not tied to the addressed bucket: {why}", s.loc(), found=lvl.text())
                    u = getattr(lvl, "upsert", None)
                    if u is not None:
                        # INSERT ... ON CONFLICT(key) DO UPDATE: the UPDATE part rewrites the EXISTING row that has the key
                        def _same_bucket(c):
                            l, r = c.left, c.right
                            return c.op in ("=", "==") and l.kind == "col" and r.kind == "col" and l.name == r.name == "bucketrow" and {(l.qual or "events"), (r.qual or "events")} == {"events", "excluded"}
                        scoped = "bucketrow" in u["target"] or (not u["where"].has_or and any(_same_bucket(c) for c in u["where"].where))
                        if u["action"] == "nothing":
                            rep.undecided(rule, fi.short, cons + " ON CONFLICT DO NOTHING", "an insert that meets an existing key is silently dropped: not modelled", s.loc())
                        elif any(c_ in ("bucketrow", "id") for c_, _e in u["sets"]):
                            rep.violation(rule, fi.short, cons + " ON CONFLICT DO UPDATE", f"the upsert re-assigns {[c_ for c_, _e in u['sets'] if c_ in ('bucketrow', 'id')]} of an existing row: the event moves to another bucket / changes its global id", s.loc(), found=lvl.text())
                        else:
                            rep.check(scoped, rule, fi.short, cons + " ON CONFLICT DO UPDATE", "the conflicting row is updated only if it belongs to the addressed bucket", f"the upsert resolves a conflict on {u['target'] or 'any unique key'} by UPDATING the existing row with that key, whichever bucket it belongs to (event ids are global): an event for this bucket that carries the id of another bucket's event overwrites that event in place", s.loc(), expected="... DO UPDATE SET ... WHERE events.bucketrow = excluded.bucketrow", found=lvl.text())
                    if getattr(lvl, "or_replace", False) and "id" in lvl.columns:
                        rep.violation(rule, fi.short, cons + " OR REPLACE", "INSERT OR REPLACE with an explicit id resolves a primary-key conflict by DELETING the existing row with that id, whichever bucket it belongs to (event ids are global): a batch for this bucket that carries the id of another bucket's event removes that event from its bucket", s.loc(), expected="UPDATE ... WHERE id = ? AND bucketrow = <this bucket> for id-bearing events", found=lvl.text())
                    continue
                ok, why = _events_level_scoped(lvl, s, bp)
                if ok is None:
                    rep.undecided(rule, fi.short, cons, why, s.loc())
                    continue
                rep.check(ok, rule, fi.short, cons, "restricted to the addressed bucket", f"this query level ranges over the events of every bucket: {why}", s.loc(), expected="... WHERE bucketrow = (SELECT rowid FROM buckets WHERE id = ?bucket) ...", found=lvl.text())
                if lvl.kind == "update":
                    for col, e in lvl.sets:
                        if col == "bucketrow":
                            ok2, why2 = _is_scope_subselect(e, s, bp)
                            rep.check(ok2, rule, fi.short, cons + " SET bucketrow", "re-assigns the same bucket", f"UPDATE moves the row to another bucket: {why2}", s.loc())
                        if col == "id":
                            rep.violation(rule, fi.short, cons + " SET id", "UPDATE re-assigns the global event id", s.loc())
            elif lvl.table == "buckets" and depth == 0:
                n_levels += 1
                if lvl.kind == "insert":
                    if "id" in lvl.columns:
                        v = lvl.values[lvl.columns.index("id")]
                        o = s.binding_origin(v.index) if v.kind == "param" else None
                        ok = o is not None and o.kind == "param" and o.name == bp
                        rep.check(ok, rule, fi.short, cons, "creates the addressed bucket id", f"bucket row id is bound to {o!r}", s.loc())
                    else:
                        rep.violation(rule, fi.short, cons, "INSERT INTO buckets without id", s.loc())
                    continue
                if lvl.has_or:
                    rep.undecided(rule, fi.short, cons, "WHERE contains OR", s.loc())
                    continue
                ok, why = False, "no conjunct id = ?bucket"
                for c in lvl.where:
                    col, par = (c.left, c.right) if c.left.kind == "col" else (c.right, c.left)
                    if col.kind == "col" and col.name == "id" and c.op in ("=", "==") and par.kind == "param":
                        if s.bind_star is not None:
                            last = s.bind_star.elts[-1]
                            n_fixed = sum(1 for x in s.bind_star.elts if not isinstance(x, ast.Starred))
                            # the WHERE placeholder is the last one in the text; with (*values, bucket) it takes the last element
                            if par.index == st.n_params - 1 and not isinstance(last, ast.Starred) and is_param_ref(last, fi, bp) and n_fixed == 1:
                                ok = True
                            else:
                                why = f"WHERE id = ? is bound to `{norm(last)}`"
                        else:
                            o = s.binding_origin(par.index)
                            if o is not None and o.kind == "param" and o.name == bp:
                                ok = True
                            else:
                                why = f"WHERE id = ? is bound to {o!r}"
                rep.check(ok, rule, fi.short, cons, "restricted to the addressed bucket row", f"statement on buckets is not restricted to the addressed bucket: {why}", s.loc(), found=lvl.text())
            elif lvl.table == "buckets":
                pass  # scoping sub-select, judged with its parent conjunct
            else:
                rep.undecided(rule, fi.short, cons, f"unknown table {lvl.table}", s.loc())
    rep.extra["sqlite_levels_checked"] = n_levels
    return n_levels


# ---------------------------------------------------------------------------
# SCOPE — peewee


def _is_bucket_key(e, fi, bp):
    """self.bucket_keys[<bucket param>] (possibly held in a single-assignment local)"""
    from .trace import resolve

    e = resolve(e, fi)
    return isinstance(e, ast.Subscript) and norm(e.value) == "self.bucket_keys" and is_param_ref(e.slice, fi, bp)


def _pw_scoped(wheres, fi, bp, model):
    """one of the where() arguments is <Model>.<bucket column> == self.bucket_keys[bp] (EventModel.bucket / BucketModel.key) or BucketModel.id == bp"""
    for w in wheres:
        conj = [w]
        # a & b
        while conj:
            c = conj.pop()
            if isinstance(c, ast.BinOp) and isinstance(c.op, ast.BitAnd):
                conj += [c.left, c.right]
                continue
            if isinstance(c, ast.Compare) and len(c.ops) == 1 and isinstance(c.ops[0], ast.Eq):
                a, b = c.left, c.comparators[0]
                for x, y in ((a, b), (b, a)):
                    col = norm(x)
                    if model == "EventModel" and col in ("EventModel.bucket", "EventModel.bucket_id") and _is_bucket_key(y, fi, bp):
                        return True
                    if model == "BucketModel" and col == "BucketModel.key" and _is_bucket_key(y, fi, bp):
                        return True
                    if model == "BucketModel" and col == "BucketModel.id" and is_param_ref(y, fi, bp):
                        return True
    return False


def _dict_of_insert_many(arg, fi):
    """EventModel.insert_many(x): trace x to the dict literal each row is built from."""
    e = arg
    for _ in range(6):
        if isinstance(e, ast.Name):
            defs = local_defs(fi, e.id)
            if len(defs) == 1 and isinstance(defs[0], ast.For):
                it = defs[0].iter
                if isinstance(it, ast.Call) and norm(it.func).split(".")[-1] in ("chunks", "chunked", "batched") and it.args:
                    e = it.args[0]
                    continue
                e = it
                continue
            v = single_def(fi, e.id)
            if v is None:
                return None
            e = v
            continue
        if isinstance(e, (ast.ListComp, ast.GeneratorExp)):
            return e.elt if isinstance(e.elt, ast.Dict) else None
        if isinstance(e, ast.List) and e.elts and all(isinstance(x, ast.Dict) for x in e.elts):
            return e.elts[0] if len(e.elts) == 1 else None
        return None
    return None


def _instance_provenance(name, fi, prog):
    """Where does local `name` (receiver of .save()) come from?  -> (kind, node)"""
    v = single_def(fi, name)
    if v is None:
        return ("unknown", None)
    if isinstance(v, ast.Call):
        f = v.func
        if isinstance(f, ast.Attribute) and isinstance(f.value, ast.Name) and f.value.id == "self":
            return ("helper", v)
        if isinstance(f, ast.Attribute) and isinstance(f.value, ast.Name) and f.value.id in ("EventModel", "BucketModel"):
            if f.attr in ("from_event",):
                return ("constructed", v)
            if f.attr in ("get", "get_or_none", "get_by_id"):
                return ("fetched", v)
        if isinstance(f, ast.Name) and f.id in ("EventModel", "BucketModel"):
            return ("constructed", v)
        # chain ending in .get()
        n = v
        while isinstance(n, ast.Call) and isinstance(n.func, ast.Attribute):
            n = n.func.value
        if isinstance(n, ast.Name) and n.id in ("EventModel", "BucketModel"):
            return ("fetched", v)
    return ("unknown", v)


def scope_peewee(prog, rep, methods=None, rule="SCOPE"):
    cls = prog.cls("PeeweeStorage")
    chains = [c for c in peewee_chains(prog) if c.fi.cls is cls]
    rep.floor("peewee query chains in PeeweeStorage", len(chains), 9)
    helpers_scoped = {}
    for ch in chains:
        fi = ch.fi
        if methods is not None and fi.name not in methods and not fi.name.startswith("_"):
            continue
        bp = bparam(fi)
        cons = f"{ch.model}.{ch.op}@{fi.name}"
        rep.unit("peewee_chains", f"{fi.short}:{ch.node.lineno} {ch.text()[:140]}")
        if bp is None:
            if ch.op in ("select",) or (ch.op == "get"):
                rep.ok(rule, fi.short, cons, "read-only chain in a method without a bucket parameter", ch.loc())
            else:
                rep.violation(rule, fi.short, cons, "write chain in a method that is not addressed to a bucket", ch.loc())
            continue
        if ch.op in ("select", "delete", "get", "update"):
            ok = _pw_scoped(ch.wheres, fi, bp, ch.model)
            if not ok:
                # q = self._where_range(q, ...) only adds conjuncts; scoping must be on the chain itself
                pass
            rep.check(ok, rule, fi.short, cons, "restricted to the addressed bucket", f"chain ranges over every bucket's rows: no where({ch.model}.{'bucket' if ch.model == 'EventModel' else 'key'} == self.bucket_keys[{bp}])", ch.loc(), found=ch.text())
            if ok and fi.name.startswith("_"):
                helpers_scoped[fi.name] = True
        elif ch.op == "create":
            kws = {k.arg: k.value for k in ch.op_call.keywords}
            if ch.model == "BucketModel":
                ok = "id" in kws and is_param_ref(kws["id"], fi, bp)
                rep.check(ok, rule, fi.short, cons, "creates the addressed bucket id", "BucketModel.create(id=...) is not the bucket parameter", ch.loc())
            else:
                ok = "bucket" in kws and _is_bucket_key(kws["bucket"], fi, bp)
                rep.check(ok, rule, fi.short, cons, "row tied to the addressed bucket", "EventModel.create(bucket=...) is not self.bucket_keys[bucket]", ch.loc())
        elif ch.op == "insert_many":
            d = _dict_of_insert_many(ch.op_call.args[0], fi) if ch.op_call.args else None
            if d is None:
                rep.undecided(rule, fi.short, cons, "cannot trace the rows given to insert_many to a dict literal", ch.loc())
                continue
            keys = {k.value: v for k, v in zip(d.keys, d.values) if isinstance(k, ast.Constant)}
            ok = "bucket" in keys and _is_bucket_key(keys["bucket"], fi, bp)
            rep.check(ok, rule, fi.short, cons, "rows tied to the addressed bucket", f"rows' bucket is `{norm(keys.get('bucket')) if 'bucket' in keys else 'missing'}`", ch.loc())
            if "id" in keys:
                rep.violation(rule, fi.short, cons + " id", "bulk INSERT names the global id column with a caller-supplied value", ch.loc())
        elif ch.op == "bulk_update":
            # peewee: Model.bulk_update(instances, fields) == UPDATE <table> SET <fields> = CASE id ... WHERE id IN (<ids>)
            rep.violation(rule, fi.short, cons, f"{ch.model}.bulk_update() updates rows selected by primary key alone (UPDATE ... WHERE id IN (...)); the bucket column of the instances is not part of the statement, so an id that belongs to another bucket overwrites that bucket's event", ch.loc(), found=ch.text())
        else:
            rep.undecided(rule, fi.short, cons, f"operation {ch.op} not judged", ch.loc())
    # save() / delete_instance() on instances, from_event(...) calls, self.bucket_keys[...] indices, raw SQL
    n_save = 0
    for fi in cls.methods.values():
        if methods is not None and fi.name not in methods and not fi.name.startswith("_"):
            continue
        if prog.is_inlined_helper(fi):
            continue
        bp = bparam(fi)
        rep.unit("functions", fi.qname)
        for n in walk_with_nested_exprs(fi.node):
            if isinstance(n, ast.Subscript) and norm(n.value) == "self.bucket_keys" and bp is not None:
                if not is_param_ref(n.slice, fi, bp):
                    rep.violation(rule, fi.short, f"self.bucket_keys[{norm(n.slice)}]", f"bucket key looked up with `{norm(n.slice)}`, not with the bucket parameter `{bp}`", fi.loc(n))
            if isinstance(n, ast.Call) and isinstance(n.func, ast.Attribute) and n.func.attr in ("execute_sql", "raw"):
                rep.undecided(rule, fi.short, f".{n.func.attr}()", "raw SQL in the peewee backend is not modelled", fi.loc(n))
            if isinstance(n, ast.Call) and norm(n.func) == "EventModel.from_event" and bp is not None:
                ok = bool(n.args) and _is_bucket_key(n.args[0], fi, bp)
                rep.check(ok, rule, fi.short, "EventModel.from_event(bucket key)", "constructed row tied to the addressed bucket", f"from_event is given `{norm(n.args[0]) if n.args else ''}` as bucket key", fi.loc(n))
            if isinstance(n, ast.Call) and isinstance(n.func, ast.Attribute) and n.func.attr in ("update", "delete") and isinstance(n.func.value, ast.Name) and n.func.value.id != "self" and (n.keywords or n.func.attr == "delete") and not n.args:
                # Model.update(**fields) / Model.delete() are class-level query builders: called through an instance they still
                # build a statement over the whole table, the instance's primary key is not part of it
                kind_, v_ = _instance_provenance(n.func.value.id, fi, prog)
                if kind_ in ("helper", "fetched", "constructed"):
                    top = n
                    while isinstance(parent(top), ast.Attribute) and isinstance(parent(parent(top)), ast.Call):
                        top = parent(parent(top))
                    wheres = _chain_wheres(top)
                    model_ = "BucketModel" if kind_ == "fetched" and _root_model(v_)[0] == "BucketModel" else "EventModel"
                    ok = bp is not None and bool(wheres) and _pw_scoped(wheres, fi, bp, model_)
                    rep.check(ok, rule, fi.short, f"{n.func.value.id}.{n.func.attr}(...)", "restricted to the addressed bucket", f"`{norm(top)[:90]}`: {n.func.attr}() is a query builder of the model class — reached through the row object `{n.func.value.id}` it still ranges over the whole table ({'UPDATE' if n.func.attr == 'update' else 'DELETE'} without WHERE unless .where() follows), so every bucket's rows are {'overwritten' if n.func.attr == 'update' else 'deleted'}", fi.loc(n))
            if isinstance(n, ast.Call) and isinstance(n.func, ast.Attribute) and n.func.attr in ("save", "delete_instance") and isinstance(n.func.value, ast.Name):
                recv = n.func.value.id
                if recv in ("self",):
                    continue
                n_save += 1
                kind, v = _instance_provenance(recv, fi, prog)
                cons = f"{recv}.{n.func.attr}()"
                force_insert = any(k.arg == "force_insert" and isinstance(k.value, ast.Constant) and k.value.value is True for k in n.keywords)
                # writes to pk / bucket of the instance between fetch and save
                bad_assign = [a for a in walk_own(fi.node) if isinstance(a, ast.Assign) and any(isinstance(t, ast.Attribute) and isinstance(t.value, ast.Name) and t.value.id == recv and t.attr in ("id", "bucket", "bucket_id", "key") for t in a.targets)]
                if kind == "helper":
                    callee = prog.method(cls, v.func.attr)
                    cbp = bparam(callee) if callee else None
                    scoped = callee is not None and _helper_returns_scoped(callee, prog)
                    passes = cbp is not None and v.args and is_param_ref(v.args[0], fi, bp)
                    ok = scoped and passes and not bad_assign
                    why = []
                    if not scoped:
                        why.append(f"{v.func.attr} does not select within its bucket parameter")
                    if not passes:
                        why.append(f"{v.func.attr} is not given `{bp}`")
                    if bad_assign:
                        why.append(f"primary key / bucket of the fetched row re-assigned ({norm(bad_assign[0])})")
                    rep.check(ok, rule, fi.short, cons, f"instance fetched by {v.func.attr}({bp}, ...) within the bucket", "; ".join(why), fi.loc(n))
                elif kind == "fetched":
                    model, calls = _root_model(v)
                    wheres = _chain_wheres(v)
                    ok = bp is not None and _pw_scoped(wheres, fi, bp, model) and not bad_assign
                    rep.check(ok, rule, fi.short, cons, "instance fetched within the addressed bucket", "instance was not selected within the addressed bucket (or its key was re-assigned)", fi.loc(n))
                elif kind == "constructed":
                    if force_insert:
                        rep.ok(rule, fi.short, cons, "force_insert=True: always an INSERT", fi.loc(n))
                        continue
                    # constructed instance: peewee turns save() into UPDATE ... WHERE pk = ? when the pk is set.
                    pk_src = _constructed_pk(v, prog)
                    if pk_src is None:
                        rep.ok(rule, fi.short, cons, "constructed without a primary key: INSERT", fi.loc(n))
                        continue
                    g = cfg_of(fi)
                    node = g.node_of(n)
                    guard_ok = _guarded_by_none(g, node, pk_src, fi)
                    rep.check(guard_ok, rule, fi.short, cons, f"constructed with id={pk_src} but only reached when {pk_src} is None: INSERT", f"save() on an instance constructed with a caller-supplied primary key ({pk_src}): peewee issues UPDATE ... WHERE id = ? with no bucket conjunct and re-assigns the bucket column, so an id that belongs to another bucket moves that bucket's event", fi.loc(n), expected=f"path condition `{pk_src} is None`, force_insert=True, or an instance fetched within the bucket", found="unguarded save()")
                else:
                    rep.undecided(rule, fi.short, cons, f"cannot tell where `{recv}` comes from", fi.loc(n))
    rep.extra["peewee_save_sites"] = n_save
    return len(chains)


def _root_model(v):
    n = v
    calls = []
    while isinstance(n, ast.Call) and isinstance(n.func, ast.Attribute):
        calls.append(n)
        n = n.func.value
    return (n.id if isinstance(n, ast.Name) else None), calls[::-1]


def _chain_wheres(v):
    model, calls = _root_model(v)
    out = []
    for c in calls:
        if c.func.attr in ("where", "get", "get_or_none"):
            out += list(c.args)
    return out


def _helper_returns_scoped(callee, prog):
    """every value the helper returns is a chain on EventModel/BucketModel scoped by the helper's own bucket parameter (or None)"""
    bp = bparam(callee)
    if bp is None:
        return False
    rets = [n for n in walk_own(callee.node) if isinstance(n, ast.Return)]
    if not rets:
        return False
    for r in rets:
        if r.value is None or (isinstance(r.value, ast.Constant) and r.value.value is None):
            continue
        model, _ = _root_model(r.value)
        if model is None or not _pw_scoped(_chain_wheres(r.value), callee, bp, model):
            return False
    return True


def _constructed_pk(v, prog):
    """EventModel.from_event(key, event) / EventModel(id=...): text of the expression the pk is set from, or None."""
    f = v.func
    if isinstance(f, ast.Attribute) and f.attr == "from_event":
        fe = prog.func("EventModel.from_event")
        # cls(bucket=..., id=event.id, ...)
        for n in walk_own(fe.node):
            if isinstance(n, ast.Call) and isinstance(n.func, ast.Name) and n.func.id == "cls":
                for k in n.keywords:
                    if k.arg == "id":
                        # map from_event's parameter `event` to the caller's argument
                        if isinstance(k.value, ast.Constant) and k.value.value is None:
                            return None
                        params = fe.params[1:]  # drop cls
                        t = norm(k.value)
                        for i, p in enumerate(params):
                            if i < len(v.args):
                                t = _replace_name(k.value, p, v.args[i])
                                if t != norm(k.value):
                                    return t
                        return norm(k.value)
                return None
        return "?"
    for k in v.keywords:
        if k.arg == "id":
            if isinstance(k.value, ast.Constant) and k.value.value is None:
                return None
            return norm(k.value)
    return None


def _replace_name(e, name, by):
    class R(ast.NodeTransformer):
        def visit_Name(self, n):
            if n.id == name:
                return by
            return n

    return norm(R().visit(ast.parse(src(e), mode="eval").body))


def _guarded_by_none(g, node, pk_text, fi):
    """every path entry -> node carries `pk_text is None` (true) or `pk_text is not None` (false)."""

    def asserts_none(lab):
        if not lab or lab[0] != "cond":
            return False
        e, pol = lab[1], lab[2]
        if isinstance(e, ast.Compare) and len(e.ops) == 1 and isinstance(e.comparators[0], ast.Constant) and e.comparators[0].value is None and norm(e.left) == pk_text:
            if isinstance(e.ops[0], ast.Is) and pol:
                return True
            if isinstance(e.ops[0], ast.IsNot) and not pol:
                return True
        return False

    reach = g.reach_filtered(g.entry, lambda u, v, lab: not asserts_none(lab))
    return node not in reach


# ---------------------------------------------------------------------------
# SCOPE — memory


def scope_memory(prog, rep, methods=None, rule="SCOPE"):
    cls = prog.cls("MemoryStorage")
    n_sites = 0
    containers = memory_containers(prog)
    for fi in cls.methods.values():
        if fi.name == "__init__" or prog.is_inlined_helper(fi):
            continue
        if methods is not None and fi.name not in methods and not fi.name.startswith("_"):
            continue
        bp = bparam(fi)
        rep.unit("functions", fi.qname)
        for n in walk_with_nested_exprs(fi.node):
            if isinstance(n, ast.Attribute) and isinstance(n.value, ast.Name) and n.value.id == "self" and n.attr in containers:
                n_sites += 1
                p = parent(n)
                cons = f"self.{n.attr} use"
                if isinstance(p, ast.Subscript) and p.value is n:
                    idx = p.slice
                    if bp is not None:
                        ok = is_param_ref(idx, fi, bp)
                        rep.check(ok, rule, fi.short, f"self.{n.attr}[{norm(idx)}]", "indexed by the bucket parameter", f"per-bucket state indexed by `{norm(idx)}`, not by the bucket parameter `{bp}`", fi.loc(n))
                    else:
                        store = isinstance(p.ctx, (ast.Store, ast.Del))
                        rep.check(not store, rule, fi.short, f"self.{n.attr}[{norm(idx)}]", "read in a listing method", "write to per-bucket state in a method that is not addressed to a bucket", fi.loc(n))
                elif isinstance(p, ast.Compare) and n in p.comparators and all(isinstance(o, (ast.In, ast.NotIn)) for o in p.ops):
                    ok = bp is None or is_param_ref(p.left, fi, bp)
                    rep.check(ok, rule, fi.short, f"{norm(p)}", "membership test of the bucket parameter", "membership test of something other than the bucket parameter", fi.loc(n))
                elif bp is None and isinstance(p, (ast.For, ast.comprehension)) and p.iter is n:
                    rep.ok(rule, fi.short, cons, "iteration over bucket ids in a listing method", fi.loc(n))
                elif isinstance(p, ast.Attribute) and p.attr in ("pop", "get", "setdefault") and isinstance(parent(p), ast.Call) and parent(p).func is p and parent(p).args and bp is not None:
                    ok = is_param_ref(parent(p).args[0], fi, bp)
                    rep.check(ok, rule, fi.short, f"self.{n.attr}.{p.attr}({norm(parent(p).args[0])}, ...)", "keyed by the bucket parameter", f"per-bucket state reached through `.{p.attr}({norm(parent(p).args[0])})`, not through the bucket parameter `{bp}`", fi.loc(n))
                else:
                    rep.violation(rule, fi.short, f"{norm(p)[:60]}", "per-bucket container used as a whole (not through the bucket parameter): can reach other buckets' state", fi.loc(n))
    if methods is None:
        rep.floor("memory container uses", n_sites, 10)
    return n_sites


def memory_containers(prog):
    """attributes of MemoryStorage that hold per-bucket state: dict-valued attributes assigned in __init__."""
    cls = prog.cls("MemoryStorage")
    init = cls.methods.get("__init__")
    out = []
    for n in walk_own(init.node):
        tgt = None
        val = None
        if isinstance(n, ast.Assign) and len(n.targets) == 1:
            tgt, val = n.targets[0], n.value
        elif isinstance(n, ast.AnnAssign):
            tgt, val = n.target, n.value
        if isinstance(tgt, ast.Attribute) and isinstance(tgt.value, ast.Name) and tgt.value.id == "self" and val is not None:
            if isinstance(val, ast.Dict) or (isinstance(val, ast.Call) and norm(val.func) in ("dict", "defaultdict", "collections.defaultdict", "OrderedDict")):
                out.append(tgt.attr)
    if len(out) < 2:
        shared = class_level_containers(prog, ("MemoryStorage",))
        if shared:
            return out + [a for _, a, _ in shared]
        raise AnalysisError(f"MemoryStorage.__init__: expected the two per-bucket containers, found {out}")
    return out


def class_level_containers(prog, classes=STORAGE_CLASSES + ("Datastore", "Bucket", "AbstractStorage")):
    """mutable containers bound at class level: ONE object shared by every instance of the class"""
    out = []
    for cname in classes:
        ci = prog.cls(cname)
        for a, v in ci.attrs.items():
            if isinstance(v, (ast.Dict, ast.List, ast.Set)) or (isinstance(v, ast.Call) and norm(v.func) in ("dict", "list", "set", "defaultdict", "collections.defaultdict", "OrderedDict", "deque", "collections.deque")):
                # only when instances mutate it through self (a constant table that is only read is harmless)
                mutated = False
                for m in ci.methods.values():
                    for n in walk_with_nested_exprs(m.node):
                        if isinstance(n, ast.Subscript) and isinstance(n.ctx, (ast.Store, ast.Del)) and norm(n.value) == f"self.{a}":
                            mutated = True
                        if isinstance(n, ast.Call) and isinstance(n.func, ast.Attribute) and norm(n.func.value) == f"self.{a}" and n.func.attr in ("append", "extend", "insert", "pop", "remove", "clear", "update", "setdefault", "add", "popitem"):
                            mutated = True
                        if isinstance(n, ast.Delete) and any(isinstance(t, ast.Subscript) and norm(t.value) == f"self.{a}" for t in n.targets):
                            mutated = True
                rebound = any(isinstance(n, (ast.Assign, ast.AnnAssign)) and any(norm(t) == f"self.{a}" for t in (n.targets if isinstance(n, ast.Assign) else [n.target])) for n in walk_own(ci.methods["__init__"].node)) if "__init__" in ci.methods else False
                if mutated and not rebound:
                    out.append((ci, a, v))
            elif isinstance(v, ast.Call) and isinstance(v.func, ast.Name) and v.func.id in prog.class_by_name:
                # an instance of a package class with mutable fields, created once in the class body
                kcs = prog.class_by_name[v.func.id]
                stateful = any(isinstance(n, ast.Attribute) and isinstance(n.ctx, ast.Store) and isinstance(n.value, ast.Name) and n.value.id == "self" for k in kcs for m in k.methods.values() if m.name != "__init__" for n in ast.walk(m.node))
                rebound = any(isinstance(n, (ast.Assign, ast.AnnAssign)) and any(norm(t) == f"self.{a}" for t in (n.targets if isinstance(n, ast.Assign) else [n.target])) for n in walk_own(ci.methods["__init__"].node)) if "__init__" in ci.methods else False
                used = any(isinstance(n, ast.Attribute) and norm(n) == f"self.{a}" for m in ci.methods.values() for n in walk_with_nested_exprs(m.node))
                if stateful and used and not rebound:
                    out.append((ci, a, v))
    return out


STORAGE_STATE = {
    # the attributes each storage class has (confirmed by reading); anything else that holds a container or is written outside
    # the constructor is a copy of stored data kept on the side
    "MemoryStorage": {"logger", "db", "_metadata", "testing"},
    "SqliteStorage": {"logger", "conn", "testing", "enable_lazy_commit", "last_commit", "num_uncommitted_statements"},
    "PeeweeStorage": {"logger", "db", "bucket_keys", "testing"},
}


def derived_state(prog, rep, rule="DERIVED-STATE"):
    rep.rule(rule, "a storage object keeps its buckets and events in one place (MemoryStorage: db / _metadata; SqliteStorage: the connection and the commit bookkeeping; PeeweeStorage: the database handle and bucket_keys): no further attribute holds a container or is written outside the constructor. A second copy of stored data (a sorted view, an id table, a 'last read') answers later calls and goes stale when it is revalidated by anything weaker than the writes themselves")
    for cname, allowed in STORAGE_STATE.items():
        ci = prog.cls(cname)
        found = {}
        for m in ci.methods.values():
            for n in walk_with_nested_exprs(m.node):
                tg = []
                if isinstance(n, ast.Assign):
                    tg = [(t, n.value) for t in n.targets]
                elif isinstance(n, ast.AnnAssign):
                    tg = [(n.target, n.value)]
                elif isinstance(n, ast.AugAssign):
                    tg = [(n.target, None)]
                for t, v in tg:
                    base, keyed = t, False
                    while isinstance(base, ast.Subscript):
                        base, keyed = base.value, True
                    if isinstance(base, ast.Attribute) and isinstance(base.value, ast.Name) and base.value.id == "self" and base.attr not in allowed:
                        cont = keyed or isinstance(v, (ast.Dict, ast.List, ast.Set, ast.ListComp, ast.DictComp, ast.SetComp, ast.Tuple)) or (isinstance(v, ast.Call) and norm(v.func) in ("dict", "list", "set", "defaultdict", "collections.defaultdict", "OrderedDict", "collections.OrderedDict", "deque", "collections.deque", "sorted", "tuple"))
                        if cont or m.name != "__init__":
                            found.setdefault(base.attr, (m, n))
                if isinstance(n, ast.Call) and isinstance(n.func, ast.Attribute) and n.func.attr in ("append", "setdefault", "update", "add", "extend", "insert", "pop", "clear") and isinstance(n.func.value, ast.Attribute) and norm(n.func.value.value) == "self" and n.func.value.attr not in allowed:
                    found.setdefault(n.func.value.attr, (m, n))
        for a, (m, n) in sorted(found.items()):
            rep.violation(rule, cname, f"self.{a}", f"{m.short} keeps `{norm(n)[:70]}`: {cname} has a second place (`self.{a}`) that holds data derived from its buckets / events; later calls are answered from it, and it is only as fresh as its invalidation (a count that is unchanged by a delete followed by an insert, a key reused after a bucket was re-created, another connection writing the same file)", m.loc(n))
        if not found:
            rep.ok(rule, cname, "attributes", f"only {sorted(allowed)}", f"{ci.mod.relpath}:{ci.node.lineno}")


def instance_state(prog, rep, rule="INSTANCE-STATE"):
    rep.rule(rule, "per-bucket state lives on the instance: no class of the datastore layer binds a mutable container at class level and then writes into it through self (every instance, i.e. every open datastore, would share it)")
    shared = class_level_containers(prog)
    for ci, a, v in shared:
        rep.violation(rule, ci.name, f"{ci.name}.{a}", f"`{a} = {norm(v)}` is bound at class level and written through self: every {ci.name} instance in the process shares this one object, so buckets, events or cached keys of one datastore show up in, are overwritten by, or are deleted through another", f"{ci.mod.relpath}:{v.lineno}")
    if not shared:
        rep.ok(rule, "aw_datastore", "class-level containers", "none that instances write into", None)
    derived_state(prog, rep)
    # the keyed containers are plain mappings: with a defaulting mapping (defaultdict, a dict subclass with __missing__ or with
    # rewritten keys) a mere READ of an unknown / deleted bucket creates an entry, and two different ids can name one entry
    for cname in STORAGE_CLASSES + ("Datastore",):
        ci = prog.cls(cname)
        for init, n in [(m_, n_) for m_ in ci.methods.values() for n_ in walk_own(m_.node)]:
            if isinstance(n, ast.Assign) and len(n.targets) == 1 and isinstance(n.targets[0], ast.Attribute) and norm(n.targets[0].value) == "self" and isinstance(n.value, ast.Call):
                fn = norm(n.value.func).split(".")[-1]
                sub = prog.class_by_name.get(fn, [])
                dictish = fn in ("defaultdict", "Counter", "ChainMap") or any(any(b.split("[")[0].split(".")[-1] in ("dict", "Dict", "UserDict", "defaultdict", "OrderedDict", "MutableMapping") for b in c.base_names) for c in sub)
                if dictish:
                    rep.violation(rule, ci.name, f"self.{n.targets[0].attr} = {norm(n.value)[:40]}", f"`self.{n.targets[0].attr}` is a {fn}: looking a key up can create or alias an entry (defaultdict makes a read of a deleted / unknown bucket re-create it; a dict subclass that rewrites keys makes two ids one bucket): the listing then holds ids that were never created, or an operation addressed to one id lands on another", init.loc(n))


# ---------------------------------------------------------------------------
# FORWARD — wrappers and self-calls pass the bucket parameter on


def forward_bucket(prog, rep, rule="FORWARD"):
    rep.rule(rule, "Bucket.* passes self.bucket_id as the bucket argument of every storage call; Datastore.*_bucket passes its bucket_id; a storage method calling another storage method of self passes its own bucket parameter")
    bucket = prog.cls("Bucket")
    n = 0
    for fi in bucket.methods.values():
        for c in prog.all_calls(fi):
            if isinstance(c.func, ast.Attribute) and norm(c.func.value) == "self.ds.storage_strategy":
                n += 1
                ok = bool(c.args) and norm(c.args[0]) == "self.bucket_id"
                rep.check(ok, rule, fi.short, f"storage_strategy.{c.func.attr}(...)", "first argument is self.bucket_id", f"first argument is `{norm(c.args[0]) if c.args else ''}`", fi.loc(c))
        for a in walk_own(fi.node):
            if isinstance(a, (ast.Assign, ast.AugAssign)):
                tgts = a.targets if isinstance(a, ast.Assign) else [a.target]
                for t in tgts:
                    if norm(t) == "self.bucket_id":
                        ok = fi.name == "__init__" and isinstance(a, ast.Assign) and is_param_ref(a.value, fi, "bucket_id")
                        rep.check(ok, rule, fi.short, "self.bucket_id =", "set once from the constructor argument", "self.bucket_id re-assigned", fi.loc(a))
    rep.floor("Bucket -> storage forwarding sites", n, 6)
    ds = prog.cls("Datastore")
    for name in ("create_bucket", "update_bucket", "delete_bucket"):
        fi = ds.methods.get(name)
        if fi is None:
            rep.error(f"anchor vanished: Datastore.{name}")
            continue
        cs = [c for c in prog.all_calls(fi) if isinstance(c.func, ast.Attribute) and norm(c.func.value) == "self.storage_strategy"]
        for c in cs:
            ok = bool(c.args) and is_param_ref(c.args[0], fi, "bucket_id")
            rep.check(ok, rule, fi.short, f"storage_strategy.{c.func.attr}(...)", "first argument is bucket_id", f"first argument is `{norm(c.args[0]) if c.args else ''}`", fi.loc(c))
        if not cs:
            rep.violation(rule, fi.short, "storage call", "no call into the storage", fi.loc())
    gi = ds.methods.get("__getitem__")
    if gi is not None:
        for c in prog.all_calls(gi):
            if isinstance(c.func, ast.Name) and c.func.id == "Bucket":
                ok = len(c.args) == 2 and is_param_ref(c.args[1], gi, "bucket_id")
                rep.check(ok, rule, gi.short, "Bucket(self, bucket_id)", "handle bound to the requested id", "handle bound to another id", gi.loc(c))
        for s in walk_with_nested_exprs(gi.node):
            if isinstance(s, ast.Subscript) and norm(s.value) == "self.bucket_instances":
                ok = is_param_ref(s.slice, gi, "bucket_id")
                rep.check(ok, rule, gi.short, f"self.bucket_instances[{norm(s.slice)}]", "cache keyed by the requested id", "handle cache keyed by something else", gi.loc(s))
        # what is stored under an id is a handle made for THAT id (not another bucket's handle found by some other look-up)
        from .trace import deep as _deep

        for a_ in walk_own(gi.node):
            if isinstance(a_, ast.Assign) and any(isinstance(t_, ast.Subscript) and norm(t_.value) == "self.bucket_instances" for t_ in a_.targets):
                v_ = _deep(a_.value, gi)
                okh = isinstance(v_, ast.Call) and norm(v_.func) == "Bucket" and len(v_.args) == 2 and norm(v_.args[0]) == "self" and norm(v_.args[1]) == "bucket_id"
                rep.check(okh, rule, gi.short, f"handle stored: {norm(a_.value)[:40]}", "Bucket(self, bucket_id)", f"`{norm(a_)[:80]}` files a handle under the requested id that was not made for it (`{norm(v_)[:60]}`): from then on every operation addressed to that id (also after a bucket of exactly that id is created) lands in another bucket", gi.loc(a_))
    # self-calls between storage methods
    for cname in STORAGE_CLASSES + ("AbstractStorage",):
        ci = prog.cls(cname)
        for fi in ci.methods.values():
            bp = bparam(fi)
            if bp is None:
                continue
            for c in prog.all_calls(fi):
                if isinstance(c.func, ast.Attribute) and isinstance(c.func.value, ast.Name) and c.func.value.id == "self":
                    callee = prog.method(ci, c.func.attr)
                    if callee is not None and bparam(callee) is not None:
                        ok = bool(c.args) and is_param_ref(c.args[0], fi, bp)
                        rep.check(ok, rule, fi.short, f"self.{c.func.attr}(...)", f"passes `{bp}` on", f"passes `{norm(c.args[0]) if c.args else ''}` as bucket", fi.loc(c))


def ddl_facts(prog, rep, rule="SCHEMA"):
    """buckets.id UNIQUE, events.id PRIMARY KEY AUTOINCREMENT (sqlite); BucketModel.id unique, EventModel.id AutoField (peewee)."""
    rep.rule(rule, "bucket ids are unique keys and event ids are engine-allocated primary keys: buckets.id UNIQUE, events.id INTEGER PRIMARY KEY AUTOINCREMENT; BucketModel.id CharField(unique=True), EventModel.id AutoField()")
    sites = sql_sites(prog)
    tables = {s.stmt.table: s for s in sites if s.stmt.kind == "create_table"}
    b, e = tables.get("buckets"), tables.get("events")
    if b is None or e is None:
        rep.error("anchor vanished: CREATE TABLE buckets/events")
        return
    rep.check("unique" in b.stmt.coldefs.get("id", ()), rule, "SqliteStorage.__init__", "buckets.id UNIQUE", "", "buckets.id is not UNIQUE: the scoping sub-select may return several rows", b.loc())
    coll = sorted(o for o in b.stmt.coldefs.get("id", ()) if o.startswith("collate:") and o != "collate:BINARY")
    rep.check(not coll, rule, "SqliteStorage.__init__", "buckets.id compared exactly", "no collation on the key column", f"buckets.id is declared {coll}: `WHERE id = ?` then matches ids that differ in case / trailing blanks, so an id that names no bucket is answered with (updates, deletes) another bucket's row, and two such ids cannot both be created", b.loc())
    for mname_, fld_ in (("BucketModel", "id"),):
        v_ = prog.cls(mname_).attrs.get(fld_)
        rep.check(v_ is None or "collation" not in norm(v_), rule, mname_, f"{mname_}.{fld_} compared exactly", "no collation on the key column", f"{mname_}.{fld_} declares a collation: ids that differ only in case select the same row", b.loc())
    eo = e.stmt.coldefs.get("id", set())
    rep.check("pk" in eo and "autoinc" in eo, rule, "SqliteStorage.__init__", "events.id PRIMARY KEY AUTOINCREMENT", "", "events.id is not an AUTOINCREMENT primary key: ids of deleted events can be reused", e.loc())
    for mname, fld, want in (("BucketModel", "id", "unique"), ("EventModel", "id", "AutoField"), ("BucketModel", "key", "primary_key")):
        ci = prog.cls(mname)
        v = ci.attrs.get(fld)
        t = norm(v) if v is not None else "<missing>"
        if want == "unique":
            ok = v is not None and "unique=True" in t
        elif want == "primary_key":
            ok = v is not None and "primary_key=True" in t
        else:
            ok = v is not None and t.startswith("AutoField(")
        rep.check(ok, rule, mname, f"{mname}.{fld}", t, f"{mname}.{fld} = {t}", f"{ci.mod.relpath}:{getattr(v, 'lineno', ci.node.lineno)}")
    # the tables accept every row the interface accepts: a CHECK constraint turns an event the other backends store (a negative
    # duration, an empty data text) into an IntegrityError in the middle of a statement
    for s_ in sites:
        for ck in getattr(s_.stmt, "checks", []) if s_.stmt.kind == "create_table" else []:
            rep.violation(rule, s_.fi.short, f"CHECK ({ck[:40]})", f"table {s_.stmt.table} is created with `CHECK ({ck})`: a row the storage interface accepts (e.g. an event with a negative duration, which the other backends store and the legacy database may hold) makes the INSERT raise; inside executemany the rows before it are already inserted but never counted for the commit bookkeeping, and a migration stops at that event for good", s_.loc())
    # a bucket's row keeps its rowid for as long as the bucket exists: the events are tied to that number
    n_b = 0
    for s_ in sites:
        st = s_.stmt
        if st.kind == "insert" and st.table == "buckets":
            n_b += 1
            u = getattr(st, "upsert", None)
            repl = getattr(st, "or_replace", False)
            if repl:
                rep.violation(rule, s_.fi.short, "INSERT OR REPLACE INTO buckets", "INSERT OR REPLACE resolves the conflict on the bucket id by DELETING the existing row and inserting a new one, which is given a new rowid: every event of the bucket still carries the old number in events.bucketrow, so after the statement the bucket reads as empty (and its events are orphans that a later bucket can inherit)", s_.loc(), expected="UPDATE buckets SET ... WHERE id = ?", found=st.text()[:120])
            elif u is not None and u["action"] == "update" and any(c_ in ("rowid",) for c_, _e in u["sets"]):
                rep.violation(rule, s_.fi.short, "ON CONFLICT DO UPDATE SET rowid", "the upsert re-assigns the bucket's rowid", s_.loc())
        if st.kind == "update" and st.table == "buckets" and any(c_ == "rowid" for c_, _e in st.sets):
            rep.violation(rule, s_.fi.short, "UPDATE buckets SET rowid", "the bucket's rowid is re-assigned: its events keep the old number", s_.loc())
    # how a datetime is turned into text is the sqlite3 module's default: a registered adapter / converter is process-wide and
    # changes what every connection (the peewee one included, whose ORDER BY compares the text) stores and reads
    for fi_ in list(prog.funcs.values()):
        for c_ in walk_with_nested_exprs(fi_.node):
            if isinstance(c_, ast.Call) and norm(c_.func) in ("sqlite3.register_adapter", "sqlite3.register_converter", "register_adapter", "register_converter"):
                rep.violation(rule, fi_.short, norm(c_.func), f"`{norm(c_)[:70]}` changes, for the whole process, how values are bound / read by every sqlite connection: the stored text of timestamps changes format (ordering and comparisons of the text column no longer follow the instants), for rows written from now on only", fi_.loc(c_))
    for mi_ in prog.modules.values():
        if not mi_.name.startswith("aw_"):
            continue
        for st_ in mi_.tree.body:
            if isinstance(st_, ast.Expr) and isinstance(st_.value, ast.Call) and norm(st_.value.func) in ("sqlite3.register_adapter", "sqlite3.register_converter", "register_adapter", "register_converter"):
                rep.violation(rule, f"module {mi_.name}", norm(st_.value.func), f"`{norm(st_.value)[:70]}` (at import) changes, for the whole process, how values are bound / read by every sqlite connection: the stored text of timestamps changes format, so ORDER BY / comparisons on the text column no longer follow the instants (a whole-second timestamp sorts after a later fractional one), and 'the newest event' is no longer the newest", f"{mi_.relpath}:{st_.lineno}")


# ---------------------------------------------------------------------------
# ADDR — delete / replace / get_event address exactly (event id AND bucket)


def addr_rule(prog, rep, rule="ADDR"):
    rep.rule(rule, "delete, replace and get_event address their target by the event id parameter (and, by SCOPE, the bucket): sqlite `id = ?event_id`, peewee `.where(EventModel.id == event_id)`, memory `event.id == event_id`")
    sites = sql_sites(prog)
    for m in ("delete", "replace", "get_event"):
        ss = [s for s in sites if s.fi.short == f"SqliteStorage.{m}" and s.stmt.table == "events"]
        fn = f"SqliteStorage.{m}"
        if len(ss) != 1:
            rep.undecided(rule, fn, "statement", f"{len(ss)} statements on events")
        else:
            s = ss[0]
            ok = False
            for c in s.stmt.where:
                col, par = (c.left, c.right) if c.left.kind == "col" else (c.right, c.left)
                if col.kind == "col" and col.name == "id" and c.op in ("=", "==") and par.kind == "param":
                    o = s.binding_origin(par.index)
                    ok = o is not None and o.kind == "param" and o.name == "event_id"
                if col.kind == "col" and col.name == "id" and c.op == "IN" and par.kind == "list" and getattr(s, "replicated_over", None) and s.bind_star is not None:
                    # id IN (?, ?, ...) with one placeholder per element of a list that is the event id parameter itself, as a list
                    # ([event_id] or list(event_id)): exactly the ids that were given
                    star = [x.value for x in s.bind_star.elts if isinstance(x, ast.Starred)]
                    if len(star) == 1 and norm(star[0]) == s.replicated_over and all(p_.kind == "param" for p_ in par.items):
                        defs_ = [d for d in local_defs(s.fi, s.replicated_over) if isinstance(d, ast.Assign)]
                        ok = bool(defs_) and len(defs_) == len(local_defs(s.fi, s.replicated_over)) and all(norm(d.value) in ("[event_id]", "list(event_id)", "[event_id, ]", "tuple(event_id)", "(event_id,)") for d in defs_)
            rep.check(ok and not s.stmt.has_or, rule, fn, f"{s.stmt.kind.upper()} events", "WHERE id = ?event_id", "the statement is not restricted to the event id it was given: it touches other events of the bucket", s.loc(), found=s.stmt.text())
    # peewee: helper _get_event (used by replace / get_event) and delete
    pcls = prog.cls("PeeweeStorage")
    chains = peewee_chains(prog)
    for m in ("_get_event", "delete"):
        chs = [c for c in chains if c.fi.short == f"PeeweeStorage.{m}" and c.model == "EventModel"]
        fn = f"PeeweeStorage.{m}"
        if len(chs) != 1:
            rep.undecided(rule, fn, "chain", f"{len(chs)} chains")
            continue
        c = chs[0]
        ok = any(norm(w) in ("EventModel.id == event_id", "event_id == EventModel.id") for w in c.wheres) and is_param_ref(ast.Name(id="event_id"), c.fi, "event_id")
        rep.check(ok, rule, fn, f"EventModel.{c.op}", "where(EventModel.id == event_id)", "the chain is not restricted to the event id it was given", c.loc(), found=c.text())
    for m in ("replace", "get_event"):
        fi = pcls.methods[m]
        cs = [c for c in walk_own(fi.node) if isinstance(c, ast.Call) and norm(c.func) == "self._get_event"]
        ok = len(cs) == 1 and len(cs[0].args) == 2 and is_param_ref(cs[0].args[1], fi, "event_id")
        rep.check(ok, rule, fi.short, "self._get_event(bucket, event_id)", "looks up the id it was given", "does not look up the event id it was given", fi.loc())
    # memory
    mcls = prog.cls("MemoryStorage")
    for m in ("delete", "replace", "_get_event"):
        fi = mcls.methods[m]
        conds = []
        for n in walk_with_nested_exprs(fi.node):
            if isinstance(n, ast.comprehension):
                conds += [c for c in n.ifs]
        ok = any(_is_id_test(c) for c in conds)
        if not ok:
            # loop form: the statement that removes / returns / overwrites the element is reached only through
            # an edge asserting <element>.id == event_id
            g = cfg_of(fi)
            acts = []
            for n in walk_own(fi.node):
                if m == "delete" and isinstance(n, ast.Call) and isinstance(n.func, ast.Attribute) and n.func.attr in ("pop", "remove") :
                    acts.append(n)
                if m == "delete" and isinstance(n, ast.Delete):
                    acts.append(n)
                if m == "replace" and isinstance(n, ast.Assign) and isinstance(n.targets[0], ast.Subscript) and isinstance(n.targets[0].value, (ast.Subscript, ast.Name)):
                    acts.append(n)
                if m == "_get_event" and isinstance(n, ast.Return) and n.value is not None and not (isinstance(n.value, ast.Constant) and n.value.value is None):
                    acts.append(n)
            if acts:
                reach = g.reach_filtered(g.entry, lambda u, v, lab: not (bool(lab) and lab[0] == "cond" and lab[2] is True and _is_id_test(lab[1])) and not (bool(lab) and lab[0] == "cond" and lab[2] is False and _is_id_test(lab[1], negated=True)))
                ok = all(g.node_of(a) not in reach for a in acts)
        rep.check(ok, rule, fi.short, "selection", "target selected by `<element>.id == event_id`", f"target not selected by `event.id == event_id` (conditions: {[norm(c) for c in conds]})", fi.loc())
    fi = mcls.methods["get_event"]
    cs = [c for c in walk_own(fi.node) if isinstance(c, ast.Call) and norm(c.func) == "self._get_event"]
    ok = len(cs) == 1 and len(cs[0].args) == 2 and is_param_ref(cs[0].args[1], fi, "event_id")
    rep.check(ok, rule, fi.short, "self._get_event(bucket, event_id)", "looks up the id it was given", "does not look up the event id it was given", fi.loc())


def _is_id_test(c, negated=False):
    """`<x>.id == event_id` (either order); negated: `<x>.id != event_id`"""
    if isinstance(c, ast.Compare) and len(c.ops) == 1 and isinstance(c.ops[0], ast.NotEq if negated else ast.Eq):
        a, b = norm(c.left), norm(c.comparators[0])
        return (a == "event_id" and b.endswith(".id")) or (b == "event_id" and a.endswith(".id"))
    return False


# ---------------------------------------------------------------------------
# UPSERT — insert_many partitions


def _id_partition(cond, var):
    """`var.id is not None` -> 'has', `var.id is None` -> 'none'"""
    if isinstance(cond, ast.Compare) and len(cond.ops) == 1 and norm(cond.left) == f"{var}.id" and isinstance(cond.comparators[0], ast.Constant) and cond.comparators[0].value is None:
        if isinstance(cond.ops[0], ast.IsNot):
            return "has"
        if isinstance(cond.ops[0], ast.Is):
            return "none"
    if isinstance(cond, ast.UnaryOp) and isinstance(cond.op, ast.Not):
        r = _id_partition(cond.operand, var)
        return {"has": "none", "none": "has"}.get(r)
    return None


def _upsert_routes(prog, fi, rep, rule):
    """how insert_many partitions `events` by id and where each partition goes
    -> [{kind: has|none, sink: replace|insert_one|update-by-own-id|insert-without-id|?, node}]"""
    routes = []

    def sink_of_rows(rows_var, elem, row_elts):
        for s_ in sql_sites(prog):
            if s_.fi is fi and s_.many and s_.rows_var == rows_var:
                if s_.stmt.kind == "insert":
                    return "insert-without-id" if "id" not in s_.stmt.columns else "insert-with-id"
                if s_.stmt.kind == "update" and s_.bindings:
                    for c in s_.stmt.where:
                        col, other = (c.left, c.right) if c.left.kind == "col" else (c.right, c.left)
                        if col.kind == "col" and col.name == "id" and other.kind == "param" and other.index < len(s_.bindings) and norm(s_.bindings[other.index]) == f"{elem}.id":
                            return "update-by-own-id"
                    return "update-not-by-own-id"
        return "?"

    def sink_of_loop(loop, elem):
        body = [x for x in loop.body if not (isinstance(x, ast.Expr) and isinstance(x.value, ast.Constant))]
        if len(body) == 1 and isinstance(body[0], ast.Expr) and isinstance(body[0].value, ast.Call):
            c = body[0].value
            if norm(c.func) == "self.replace" and len(c.args) == 3 and norm(c.args[1]) == f"{elem}.id" and norm(c.args[2]) == elem:
                return "replace"
            if norm(c.func) == "self.insert_one" and len(c.args) == 2 and norm(c.args[1]) == elem:
                return "insert_one"
        apps = [x for x in ast.walk(loop) if isinstance(x, ast.Call) and isinstance(x.func, ast.Attribute) and x.func.attr == "append" and isinstance(x.func.value, ast.Name)]
        if len(apps) == 1 and not any(isinstance(x, (ast.Continue, ast.Break)) for x in ast.walk(loop)):
            a0 = apps[0].args[0] if apps[0].args else None
            return sink_of_rows(apps[0].func.value.id, elem, a0.elts if isinstance(a0, (ast.Tuple, ast.List)) else None)
        return "?"

    for n in walk_with_nested_exprs(fi.node):
        if isinstance(n, (ast.ListComp, ast.GeneratorExp)) and len(n.generators) == 1:
            g = n.generators[0]
            if is_param_ref(g.iter, fi, "events") and isinstance(g.target, ast.Name) and len(g.ifs) == 1:
                k = _id_partition(g.ifs[0], g.target.id)
                if k is None:
                    rep.undecided(rule, fi.short, f"partition `{norm(g.ifs[0])}`", "filter over events is not an id test", fi.loc(n))
                    continue
                asg = parent(n)
                var = asg.targets[0].id if isinstance(asg, ast.Assign) and isinstance(asg.targets[0], ast.Name) else None
                sink = "?"
                if norm(n.elt) == g.target.id:
                    loops = [l for l in walk_own(fi.node) if isinstance(l, ast.For) and isinstance(l.target, ast.Name) and ((var and norm(l.iter) == var) or l.iter is n)]
                    if len(loops) == 1 and not any(isinstance(x, ast.If) for x in loops[0].body):
                        sink = sink_of_loop(loops[0], loops[0].target.id)
                    # dict rows for peewee's insert_many(...).execute(): anything consuming the partition whole
                    if sink == "?" and var and k == "none":
                        sink = "bulk"
                routes.append({"kind": k, "sink": sink, "node": n})
            elif is_param_ref(g.iter, fi, "events") and g.ifs:
                rep.undecided(rule, fi.short, f"partition `{[norm(c) for c in g.ifs]}`", "compound filter over events", fi.loc(n))
    for l in walk_own(fi.node):
        if isinstance(l, ast.For) and is_param_ref(l.iter, fi, "events") and isinstance(l.target, ast.Name):
            body = [x for x in l.body if not (isinstance(x, ast.Expr) and isinstance(x.value, ast.Constant))]
            if len(body) >= 2 and isinstance(body[0], ast.If) and not body[0].orelse and len(body[0].body) == 1 and isinstance(body[0].body[0], ast.Continue) and not any(isinstance(x, (ast.Continue, ast.Break)) for b_ in body[1:] for x in ast.walk(b_)):
                # `if <id test>: continue` in front of the body: the body runs for the other partition
                k0 = _id_partition(body[0].test, l.target.id)
                if k0 is not None:
                    inner = ast.For(target=l.target, iter=l.iter, body=body[1:], orelse=[])
                    routes.append({"kind": "none" if k0 == "has" else "has", "sink": sink_of_loop(inner, l.target.id), "node": l})
                continue
            if len(body) == 1 and isinstance(body[0], ast.If) and not body[0].orelse:
                k = _id_partition(body[0].test, l.target.id)
                if k is not None:
                    inner = ast.For(target=l.target, iter=l.iter, body=body[0].body, orelse=[])
                    routes.append({"kind": k, "sink": sink_of_loop(inner, l.target.id), "node": l})
            elif len(body) == 1 and isinstance(body[0], ast.If) and body[0].orelse:
                # one pass: `if e.id is not None: ups.append(e) else: ins.append(e)`, each list consumed afterwards
                k = _id_partition(body[0].test, l.target.id)

                def only_append(blk):
                    blk = [x for x in blk if not (isinstance(x, ast.Expr) and isinstance(x.value, ast.Constant))]
                    if len(blk) == 1 and isinstance(blk[0], ast.Expr) and isinstance(blk[0].value, ast.Call) and isinstance(blk[0].value.func, ast.Attribute) and blk[0].value.func.attr == "append" and isinstance(blk[0].value.func.value, ast.Name) and len(blk[0].value.args) == 1 and norm(blk[0].value.args[0]) == l.target.id:
                        return blk[0].value.func.value.id
                    return None

                va, vb = only_append(body[0].body), only_append(body[0].orelse)
                if k is not None and va and vb and va != vb:
                    for var, kind in ((va, k), (vb, "none" if k == "has" else "has")):
                        sink = "?"
                        loops = [x for x in walk_own(fi.node) if isinstance(x, ast.For) and x is not l and isinstance(x.target, ast.Name) and norm(x.iter) == var]
                        if len(loops) == 1 and not any(isinstance(x, ast.If) for x in loops[0].body):
                            sink = sink_of_loop(loops[0], loops[0].target.id)
                        comps = [x for x in walk_with_nested_exprs(fi.node) if isinstance(x, (ast.ListComp, ast.GeneratorExp)) and len(x.generators) == 1 and norm(x.generators[0].iter) == var and not x.generators[0].ifs]
                        if sink == "?" and kind == "none" and (comps or loops):
                            sink = "bulk"
                        routes.append({"kind": kind, "sink": sink, "node": l})
    return routes


def upsert_rule(prog, rep, rule="UPSERT"):
    rep.rule(rule, "insert_many splits its argument into two complementary partitions (id is not None / id is None) over the same list; the id-bearing part reaches an update-by-id within the bucket, the id-less part an INSERT that does not name the id column; the inherited loop visits every element once")
    for cname in ("SqliteStorage", "PeeweeStorage"):
        fi = prog.func(f"{cname}.insert_many")
        routes = _upsert_routes(prog, fi, rep, rule)
        kinds = sorted(r["kind"] for r in routes)
        ok = kinds == ["has", "none"]
        rep.check(ok, rule, fi.short, "partitions", "events split into `id is not None` and `id is None`", f"the two partitions of `events` are not complementary (found {kinds}): events are dropped or written twice", fi.loc())
        if not ok:
            continue
        has = next(r for r in routes if r["kind"] == "has")
        none = next(r for r in routes if r["kind"] == "none")
        good = has["sink"] in ("replace", "insert_one", "update-by-own-id")
        rep.check(good, rule, fi.short, "id-bearing partition", "each element goes to an update by its own id", f"the id-bearing events are not each passed to replace(bucket, e.id, e) / insert_one(bucket, e) / an UPDATE ... WHERE id = <their own id> (sink: {has['sink']})", fi.loc(has["node"]))
        if cname == "SqliteStorage":
            okn = none["sink"] == "insert-without-id"
            rep.check(okn, rule, fi.short, "id-less partition", "one row per id-less event, INSERT that does not name the id column", f"rows for the bulk INSERT are not built one per element of the id-less partition, or the INSERT names the id column (sink: {none['sink']})", fi.loc(none["node"]))
    # inherited loop
    fi = prog.func("AbstractStorage.insert_many")
    from .trace import resolve

    loops = [l for l in walk_own(fi.node) if isinstance(l, ast.For)]
    ok = False
    if len(loops) == 1 and is_param_ref(loops[0].iter, fi, "events") and isinstance(loops[0].target, ast.Name):
        body = [x for x in loops[0].body if not (isinstance(x, ast.Expr) and isinstance(x.value, ast.Constant))]
        if len(body) == 1 and isinstance(body[0], ast.Expr) and isinstance(body[0].value, ast.Call):
            c = body[0].value
            callee = resolve(c.func, fi) if isinstance(c.func, ast.Name) else c.func
            ok = norm(callee) == "self.insert_one" and [norm(a) for a in c.args] == [bparam(fi), loops[0].target.id] and not c.keywords
    rep.check(ok, rule, fi.short, "loop", "every element is inserted once, in order", "the inherited insert_many does not pass every element to insert_one exactly once", fi.loc())
    mfi = prog.func("MemoryStorage.insert_one")
    # memory insert_one: id-bearing -> replace, else append
    g = cfg_of(mfi)
    reps = [c for c in walk_own(mfi.node) if isinstance(c, ast.Call) and norm(c.func) == "self.replace"]
    apps = [c for c in walk_own(mfi.node) if isinstance(c, ast.Call) and isinstance(c.func, ast.Attribute) and c.func.attr == "append" and norm(c.func.value).startswith("self.db[")]
    ok = len(reps) == 1 and len(apps) == 1 and _guarded_by_none(g, g.node_of(apps[0]), "event.id", mfi) and not _guarded_by_none(g, g.node_of(reps[0]), "event.id", mfi)
    rep.check(ok, rule, mfi.short, "dispatch on id", "id-less events are appended, id-bearing ones replace", "MemoryStorage.insert_one does not dispatch on `event.id is None`", mfi.loc())


def const_int(e):
    if isinstance(e, ast.Constant) and isinstance(e.value, int) and not isinstance(e.value, bool):
        return e.value
    if isinstance(e, ast.UnaryOp) and isinstance(e.op, ast.USub) and isinstance(e.operand, ast.Constant) and isinstance(e.operand.value, int):
        return -e.operand.value
    return None


def idalloc_memory(prog, rep, rule="IDALLOC"):
    rep.rule(rule, "MemoryStorage allocates the id of a new event as max(id over the addressed bucket's live events) + k (k >= 1), 0-based for an empty bucket: unique within the bucket")
    fi = prog.func("MemoryStorage.insert_one")
    bp = bparam(fi)
    # the object that is appended to the bucket is the one whose id is allocated
    appended = {norm(c.args[0]) for c in walk_own(fi.node) if isinstance(c, ast.Call) and isinstance(c.func, ast.Attribute) and c.func.attr == "append" and norm(c.func.value) == f"self.db[{bp}]" and c.args}
    names = appended | {"event"}
    asg = [n for n in walk_own(fi.node) if isinstance(n, ast.Assign) and any(norm(t) in {f"{x}.id" for x in names} | {f"{x}['id']" for x in names} for t in n.targets)]
    found = False
    for a in asg:
        v = a.value
        if isinstance(v, ast.BinOp) and isinstance(v.op, ast.Add):
            for x, y in ((v.left, v.right), (v.right, v.left)):
                if isinstance(y, ast.Constant) and isinstance(y.value, int) and y.value >= 1 and isinstance(x, ast.Call) and norm(x.func) == "max" and len(x.args) == 1 and isinstance(x.args[0], (ast.GeneratorExp, ast.ListComp)):
                    g = x.args[0].generators[0]
                    it_ok = norm(g.iter) == f"self.db[{bp}]" and not g.ifs
                    elt = norm(x.args[0].elt)
                    var = norm(g.target)
                    elt_ok = elt in (f"int({var}.id or 0)", f"{var}.id", f"int({var}.id)", f"{var}.id or 0")
                    kws = {k.arg: k.value for k in x.keywords}
                    # max(..., default=d): the first id is d + k and must not be negative; no other keyword
                    dflt_ok = set(kws) <= {"default"} and (not kws or (isinstance(kws["default"], (ast.Constant, ast.UnaryOp)) and isinstance(const_int(kws["default"]), int) and const_int(kws["default"]) + y.value >= 0 and const_int(kws["default"]) < y.value + 0 + 10**9))
                    found = True
                    rep.check(it_ok and elt_ok and dflt_ok, rule, fi.short, "new id", f"{norm(v)}", f"new id `{norm(v)}` is not max over the addressed bucket's ids + k: ids can collide with a live event", fi.loc(a))
        elif isinstance(v, ast.Constant) and isinstance(v.value, int):
            # empty-bucket branch: must be under `else` of `if self.db[bucket]:`
            p = parent(a)
            ok = isinstance(p, ast.If) and a in p.orelse and norm(p.test) in (f"self.db[{bp}]", f"len(self.db[{bp}]) > 0")
            rep.check(ok, rule, fi.short, "first id", f"{v.value} for an empty bucket", "a constant id is assigned although the bucket may hold events", fi.loc(a))
        else:
            rep.undecided(rule, fi.short, f"id = {norm(v)[:50]}", "unrecognised id allocation", fi.loc(a))
    if not found:
        rep.violation(rule, fi.short, "new id", "no max(...)+k id allocation found for new events", fi.loc())
    # any other method that numbers events: each numbered object must be a copy of its own
    from .trace import deep

    ci = prog.cls("MemoryStorage")
    for m in ci.methods.values():
        for lp in [n for n in walk_own(m.node) if isinstance(n, ast.For)]:
            tv = lp.target.elts[-1] if isinstance(lp.target, ast.Tuple) else lp.target
            if not isinstance(tv, ast.Name):
                continue
            ids = [a for a in ast.walk(lp) if isinstance(a, ast.Assign) and any(norm(t) == f"{tv.id}.id" for t in a.targets) and not (isinstance(a.value, ast.Constant) and a.value.value is None)]
            if not ids:
                continue
            it = lp.iter.args[0] if isinstance(lp.iter, ast.Call) and norm(lp.iter.func) == "enumerate" and lp.iter.args else lp.iter
            src = deep(it, m)
            if isinstance(src, ast.Call) and norm(src.func) in ("copy.deepcopy", "deepcopy") and src.args:
                rep.violation(rule, m.short, f"{tv.id}.id = {norm(ids[0].value)[:40]}", f"ids are assigned to the elements of a list that was deep-copied as a whole (`{norm(src)[:70]}`): deepcopy keeps objects that occur twice in the caller's list as ONE object, so both slots of the bucket hold the same event and end up with the same (last) id: ids are no longer unique within the bucket", m.loc(ids[0]), expected="one copy per element (copy.deepcopy(event) inside the loop)", found=norm(src)[:100])


def idalloc_sql(prog, rep, rule="IDALLOC"):
    """the id an SQL backend reports for a new event is the id the engine allocated for the row this call wrote"""
    from .trace import deep

    rep.rule(rule, "SQL backends: the id insert_one puts on the event it returns is the engine's id of the row written by this call (sqlite: <cursor>.lastrowid of the cursor that executed the single INSERT INTO events; peewee: the primary key of the model instance that was saved / created / the value insert().execute() returned); an id read back by a query ('the newest row', 'the largest id') names another event whenever the new one is not the newest / a concurrent writer got in between")
    # ---- sqlite
    fi = prog.func("SqliteStorage.insert_one")
    rep.unit("functions", fi.qname)
    sites = [s for s in sql_sites(prog) if s.fi is fi]
    asg = [n for n in walk_own(fi.node) if isinstance(n, ast.Assign) and any(isinstance(t, ast.Attribute) and t.attr == "id" for t in n.targets) and not (isinstance(n.value, ast.Constant) and n.value.value is None)]
    if not asg:
        rep.undecided(rule, fi.short, "new id", "no assignment to <event>.id in insert_one: cannot see where the reported id comes from", fi.loc())
    for a in asg:
        v = a.value
        dv = deep(v, fi)
        cons = f"{norm(a.targets[0])} = {norm(v)[:40]}"
        sel = [s for s in sites if s.stmt.kind == "select" and norm(s.call) in norm(dv)]
        if isinstance(v, ast.Attribute) and v.attr == "lastrowid":
            r = v.value
            if isinstance(r, ast.Name):
                on = [s for s in sites if isinstance(s.call.func.value, ast.Name) and s.call.func.value.id == r.id]
                d_ = single_def(fi, r.id)
                # cursor = self.conn.execute(<INSERT>): the cursor the statement returned
                on += [s for s in sites if s.call is d_ and s not in on]
            else:
                on = [s for s in sites if s.call is r]
            ins = [s for s in on if s.stmt.kind == "insert" and s.stmt.table == "events" and not s.many]
            ok = len(ins) == 1 and len(on) == 1
            rep.check(ok, rule, fi.short, cons, "lastrowid of the cursor that executed the one INSERT INTO events", f"`{norm(v)}` is the lastrowid of a cursor that executed {[s.stmt.kind + (' (executemany)' if s.many else '') for s in on] or 'no statement'}: not the id of the one row this call inserted (executemany leaves lastrowid undefined; a later statement on the cursor overwrites it)", fi.loc(a))
        elif sel:
            rep.violation(rule, fi.short, cons, f"the id reported for the new event is read back with a query (`{sel[0].stmt.text()[:90]}`), it is not the id the engine allocated for the inserted row: when the new event is not the one the query ranks first (e.g. it is older than a stored one) the caller is given ANOTHER event's id, so ids are not unique and get_by_id returns the wrong event", fi.loc(a))
        else:
            rep.undecided(rule, fi.short, cons, f"unrecognised id source `{norm(dv)[:80]}`", fi.loc(a))
    # ---- peewee
    fi = prog.func("PeeweeStorage.insert_one")
    rep.unit("functions", fi.qname)
    asg = [n for n in walk_own(fi.node) if isinstance(n, ast.Assign) and any(isinstance(t, ast.Attribute) and t.attr == "id" for t in n.targets) and not (isinstance(n.value, ast.Constant) and n.value.value is None)]
    if not asg:
        rep.undecided(rule, fi.short, "new id", "no assignment to <event>.id in insert_one", fi.loc())
    for a in asg:
        v = a.value
        cons = f"{norm(a.targets[0])} = {norm(v)[:40]}"
        dv = deep(v, fi)
        t = norm(dv)
        if isinstance(v, ast.Attribute) and v.attr in ("id", "get_id") and isinstance(v.value, ast.Name):
            m = v.value.id
            d = single_def(fi, m)
            made = isinstance(d, ast.Call) and norm(d.func) in ("EventModel.from_event", "EventModel", "EventModel.create")
            saved = norm(d.func) == "EventModel.create" if made else False
            saved = saved or any(isinstance(c, ast.Call) and isinstance(c.func, ast.Attribute) and c.func.attr == "save" and isinstance(c.func.value, ast.Name) and c.func.value.id == m for c in walk_own(fi.node))
            if made:
                rep.check(saved, rule, fi.short, cons, "primary key of the model instance saved by this call", f"`{m}` is built but never saved before its id is read: the id is None", fi.loc(a))
            elif ".select(" in t or ".get(" in t or ".first(" in t:
                rep.violation(rule, fi.short, cons, f"the id reported for the new event is read back with a query (`{t[:90]}`), not taken from the row this call saved: it names another event whenever the new one is not ranked first", fi.loc(a))
            else:
                rep.undecided(rule, fi.short, cons, f"unrecognised id source `{t[:80]}`", fi.loc(a))
        elif ".insert(" in t and t.endswith(".execute()"):
            rep.ok(rule, fi.short, cons, "value returned by insert().execute()", fi.loc(a))
        elif ".select(" in t or ".get(" in t or ".first(" in t or ".scalar(" in t:
            rep.violation(rule, fi.short, cons, f"the id reported for the new event is read back with a query (`{t[:90]}`), not taken from the row this call saved: it names another event whenever the new one is not ranked first", fi.loc(a))
        else:
            rep.undecided(rule, fi.short, cons, f"unrecognised id source `{t[:80]}`", fi.loc(a))
