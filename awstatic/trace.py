"""Value tracing through single-assignment locals, tuple assignments and for-loop tuple targets."""
from __future__ import annotations

import ast

from .model import norm, walk_own, walk_with_nested_exprs
from .sqlmodel import local_defs


def resolve(e, fi, depth=0):
    """Follow a local name to the expression it was bound to, as far as that is unambiguous:
        x = expr                      -> expr
        a, b = (e1, e2)               -> the matching element
    Names bound more than once, parameters and loop variables are returned as they are."""
    while isinstance(e, ast.Name) and depth < 8:
        defs = local_defs(fi, e.id)
        if len(defs) == 2:
            from .sqlmodel import two_armed

            ie = two_armed(defs)
            if ie is None:
                break
            e = ie
            depth += 1
            break
        if len(defs) != 1:
            break
        d = defs[0]
        nxt = None
        if isinstance(d, ast.Assign) and len(d.targets) == 1:
            t = d.targets[0]
            if isinstance(t, ast.Name):
                nxt = d.value
            elif isinstance(t, (ast.Tuple, ast.List)) and isinstance(d.value, (ast.Tuple, ast.List)) and len(t.elts) == len(d.value.elts):
                for tt, vv in zip(t.elts, d.value.elts):
                    if isinstance(tt, ast.Name) and tt.id == e.id:
                        nxt = vv
        elif isinstance(d, ast.AnnAssign) and d.value is not None:
            nxt = d.value
        if nxt is None:
            break
        e = nxt
        depth += 1
    return e


def loop_tuple_index(name, fi):
    """`for a, b, c in rows:` -> index of `name` in the target tuple and the loop, else None"""
    for d in local_defs(fi, name):
        if isinstance(d, ast.For) and isinstance(d.target, (ast.Tuple, ast.List)):
            for i, t in enumerate(d.target.elts):
                if isinstance(t, ast.Name) and t.id == name:
                    return i, d
    return None


def deep(e, fi, depth=5, stop=()):
    """copy of expression e with every single-assignment local it mentions replaced by its defining expression
    (recursively): the expression as a function of parameters, loop variables and multiply-assigned names only"""
    if e is None or depth <= 0:
        return e

    class R(ast.NodeTransformer):
        def visit_Name(self, n):
            if isinstance(n.ctx, ast.Load) and n.id not in fi.params and n.id not in stop:
                v = resolve(n, fi)
                if v is not n and not isinstance(v, (ast.Lambda, ast.Await, ast.Yield)):
                    return deep(ast.parse(ast.unparse(v), mode="eval").body, fi, depth - 1, stop)
            return n

        def visit_Lambda(self, n):
            return n

    return R().visit(ast.parse(ast.unparse(e), mode="eval").body)


def map_desc(fi, e):
    """Describe a list / dict that is built as  prefix + [E(x) for x in IT]  (comprehension, append loop, += / extend)
    -> (prefix element texts, iterable text, element text with the loop variable written `_`, 'key' for dicts) or None"""

    class _R(ast.NodeTransformer):
        def __init__(self, var):
            self.var = var

        def visit_Name(self, n):
            return ast.copy_location(ast.Name(id="_", ctx=n.ctx), n) if n.id == self.var else n

    def elt_text(elt, var):
        return norm(_R(var).visit(ast.parse(ast.unparse(elt), mode="eval").body))

    def comp(c, prefix):
        if isinstance(c, (ast.ListComp, ast.GeneratorExp)) and len(c.generators) == 1 and not c.generators[0].ifs and isinstance(c.generators[0].target, ast.Name):
            g = c.generators[0]
            return (prefix, norm(g.iter), elt_text(c.elt, g.target.id), None)
        if isinstance(c, ast.DictComp) and len(c.generators) == 1 and not c.generators[0].ifs and isinstance(c.generators[0].target, ast.Tuple) and len(c.generators[0].target.elts) == 2:
            g = c.generators[0]
            k, v = [norm(x) for x in g.target.elts]
            if norm(c.key) == k:
                return (prefix, norm(g.iter), elt_text(c.value, v), "key")
        return None

    if isinstance(e, (ast.ListComp, ast.DictComp)):
        return comp(e, [])
    # dict(zip(D.keys(), [E(v) for v in D.values()])): keys and values of one dict iterate in the same order
    if isinstance(e, ast.Call) and norm(e.func) == "dict" and len(e.args) == 1 and not e.keywords and isinstance(e.args[0], ast.Call) and norm(e.args[0].func) == "zip" and len(e.args[0].args) == 2:
        ks, vs = e.args[0].args
        if isinstance(ks, ast.Call) and isinstance(ks.func, ast.Attribute) and ks.func.attr == "keys" and not ks.args:
            d = norm(ks.func.value)
            inner = map_desc(fi, vs)
            if inner is not None and inner[0] == [] and inner[1] == f"{d}.values()" and inner[3] is None:
                return ([], f"{d}.items()", inner[2], "key")
        return None
    if isinstance(e, ast.BinOp) and isinstance(e.op, ast.Add) and isinstance(e.left, ast.List):
        return comp(e.right, [norm(x) for x in e.left.elts])
    if isinstance(e, ast.List) and e.elts and isinstance(e.elts[-1], ast.Starred):
        return comp(e.elts[-1].value, [norm(x) for x in e.elts[:-1]])
    if not isinstance(e, ast.Name):
        return None
    acc = e.id
    inits = [n for n in walk_own(fi.node) if isinstance(n, (ast.Assign, ast.AnnAssign)) and norm(n.targets[0] if isinstance(n, ast.Assign) else n.target) == acc]
    if len(inits) != 1 or inits[0].value is None:
        return None
    init = inits[0].value
    if isinstance(init, (ast.ListComp, ast.DictComp, ast.BinOp)) or (isinstance(init, ast.List) and init.elts and isinstance(init.elts[-1], ast.Starred)):
        others = [n for n in walk_with_nested_exprs(fi.node) if isinstance(n, ast.Call) and isinstance(n.func, ast.Attribute) and norm(n.func.value) == acc]
        return None if others else map_desc(fi, init)
    if isinstance(init, ast.List):
        prefix = [norm(x) for x in init.elts]
    elif (isinstance(init, ast.Dict) and not init.keys) or norm(init) in ("dict()", "list()"):
        prefix = []
    else:
        return None
    muts = []
    for n in walk_own(fi.node):
        if isinstance(n, ast.For) and isinstance(n.target, (ast.Name, ast.Tuple)):
            body = [x for x in n.body if not (isinstance(x, ast.Expr) and isinstance(x.value, ast.Constant))]
            touching = [x for x in body if any(isinstance(y, ast.Name) and y.id == acc for y in ast.walk(x))]
            if not touching:
                continue
            exits = [y for x in n.body for y in ast.walk(x) if isinstance(y, (ast.Break, ast.Continue, ast.Return))]
            if len(touching) == 1 and not exits and not n.orelse:
                b0 = touching[0]
                if isinstance(n.target, ast.Name) and isinstance(b0, ast.Expr) and isinstance(b0.value, ast.Call) and norm(b0.value.func) == f"{acc}.append" and len(b0.value.args) == 1:
                    muts.append((prefix, norm(resolve(n.iter, fi) if isinstance(n.iter, ast.Name) and n.iter.id.endswith("__h") and isinstance(resolve(n.iter, fi), (ast.Call, ast.Attribute, ast.Subscript)) else n.iter), elt_text(b0.value.args[0], n.target.id), None))
                    continue
                if isinstance(n.target, ast.Tuple) and len(n.target.elts) == 2 and isinstance(b0, ast.Assign) and isinstance(b0.targets[0], ast.Subscript) and norm(b0.targets[0].value) == acc and norm(b0.targets[0].slice) == norm(n.target.elts[0]):
                    muts.append((prefix, norm(n.iter), elt_text(b0.value, norm(n.target.elts[1])), "key"))
                    continue
            muts.append(None)
        elif isinstance(n, ast.AugAssign) and norm(n.target) == acc and isinstance(n.op, ast.Add):
            muts.append(comp(n.value, prefix))
        elif isinstance(n, ast.Expr) and isinstance(n.value, ast.Call) and norm(n.value.func) == f"{acc}.extend" and len(n.value.args) == 1:
            muts.append(comp(n.value.args[0], prefix))
        elif isinstance(n, ast.Expr) and isinstance(n.value, ast.Call) and isinstance(n.value.func, ast.Attribute) and norm(n.value.func.value) == acc and n.value.func.attr in ("insert", "pop", "remove", "clear", "reverse", "sort", "update", "setdefault"):
            muts.append(None)
    if len(muts) != 1 or muts[0] is None:
        return None
    return muts[0]




def _subst_env(e, env):
    class R(ast.NodeTransformer):
        def visit_Name(self, n):
            if isinstance(n.ctx, ast.Load) and n.id in env:
                return ast.parse(ast.unparse(env[n.id]), mode="eval").body
            return n

        def visit_Lambda(self, n):
            return n

    return R().visit(ast.parse(ast.unparse(e), mode="eval").body)


def sym_env_before(fi, node):
    """Values of the function's locals just before the top-level statement that contains `node`, as expressions over
    the parameters (sequential substitution through the top-level assignments, also for names assigned several times).
    A name assigned inside a compound statement becomes `<name>?` (unknown)."""
    from .model import parent

    top = node
    while top is not None and parent(top) is not fi.node:
        top = parent(top)
    env = {}
    for st in fi.node.body:
        if st is top:
            break
        if isinstance(st, ast.Assign) and len(st.targets) == 1:
            t, v = st.targets[0], st.value
            if isinstance(t, ast.Name):
                env[t.id] = _subst_env(v, env)
                continue
            if isinstance(t, (ast.Tuple, ast.List)) and all(isinstance(x, (ast.Name, ast.Tuple)) for x in t.elts):
                sv = _subst_env(v, env)

                def bind(tt, vv):
                    if isinstance(tt, ast.Name):
                        env[tt.id] = vv
                    else:
                        for i, x in enumerate(tt.elts):
                            if isinstance(vv, (ast.Tuple, ast.List)) and len(vv.elts) == len(tt.elts):
                                bind(x, vv.elts[i])
                            else:
                                bind(x, ast.Subscript(value=vv, slice=ast.Constant(value=i), ctx=ast.Load()))

                bind(t, sv)
                continue
        if isinstance(st, ast.AnnAssign) and isinstance(st.target, ast.Name) and st.value is not None:
            env[st.target.id] = _subst_env(st.value, env)
            continue
        if isinstance(st, ast.AugAssign) and isinstance(st.target, ast.Name):
            cur = env.get(st.target.id, ast.Name(id=st.target.id, ctx=ast.Load()))
            env[st.target.id] = ast.BinOp(left=cur, op=st.op, right=_subst_env(st.value, env))
            continue
        for n in ast.walk(st):
            if isinstance(n, ast.Name) and isinstance(n.ctx, ast.Store):
                env[n.id] = ast.Name(id=n.id + "?", ctx=ast.Load())
    return env


def sym_value(fi, e):
    """expression e (somewhere in fi) with the locals it mentions replaced by their values at that point"""
    return _subst_env(e, sym_env_before(fi, e))


def path_value(sm, e, depth=4):
    """expression e with the names assigned on the path `sm` (a PathSummary with .stmts) replaced by their last value there"""
    if depth <= 0:
        return e
    env = {}
    for st in sm.stmts:
        if isinstance(st, ast.Assign) and len(st.targets) == 1 and isinstance(st.targets[0], ast.Name):
            env[st.targets[0].id] = _subst_env(st.value, env)
    return _subst_env(e, env)
