"""Value tracing through single-assignment locals, tuple assignments and for-loop tuple targets."""
from __future__ import annotations

import ast

from .sqlmodel import local_defs


def resolve(e, fi, depth=0):
    """Follow a local name to the expression it was bound to, as far as that is unambiguous:
        x = expr                      -> expr
        a, b = (e1, e2)               -> the matching element
    Names bound more than once, parameters and loop variables are returned as they are."""
    while isinstance(e, ast.Name) and depth < 8:
        defs = local_defs(fi, e.id)
        if len(defs) != 1:
            break
        d = defs[0]
        nxt = None
        if isinstance(d, ast.Assign) and len(d.targets) == 1:
            t = d.targets[0]
            if isinstance(t, ast.Name):
                nxt = d.value
            elif isinstance(t, (ast.Tuple, ast.List)) and isinstance(d.value, (ast.Tuple, ast.List)) and len(t.elts) == len(d.value.elts):
                for tt, vv in zip(t.elts, d.value.elts):
                    if isinstance(tt, ast.Name) and tt.id == e.id:
                        nxt = vv
        elif isinstance(d, ast.AnnAssign) and d.value is not None:
            nxt = d.value
        if nxt is None:
            break
        e = nxt
        depth += 1
    return e


def loop_tuple_index(name, fi):
    """`for a, b, c in rows:` -> index of `name` in the target tuple and the loop, else None"""
    for d in local_defs(fi, name):
        if isinstance(d, ast.For) and isinstance(d.target, (ast.Tuple, ast.List)):
            for i, t in enumerate(d.target.elts):
                if isinstance(t, ast.Name) and t.id == name:
                    return i, d
    return None


def deep(e, fi, depth=5, stop=()):
    """copy of expression e with every single-assignment local it mentions replaced by its defining expression
    (recursively): the expression as a function of parameters, loop variables and multiply-assigned names only"""
    if e is None or depth <= 0:
        return e

    class R(ast.NodeTransformer):
        def visit_Name(self, n):
            if isinstance(n.ctx, ast.Load) and n.id not in fi.params and n.id not in stop:
                v = resolve(n, fi)
                if v is not n and not isinstance(v, (ast.Lambda, ast.ListComp, ast.DictComp, ast.SetComp, ast.GeneratorExp, ast.Await, ast.Yield)):
                    return deep(ast.parse(ast.unparse(v), mode="eval").body, fi, depth - 1, stop)
            return n

        def visit_Lambda(self, n):
            return n

    return R().visit(ast.parse(ast.unparse(e), mode="eval").body)
