"""E2 — points-to / ownership / effect analysis.

Abstract objects are access-path nodes:
    ("P", i, path)      reachable from parameter i of the analysed entry point, at entry, via `path`
    ("S", path)         reachable from an attribute of `self` (the store), path[0] = attribute name
    ("F", site, path)   allocated at `site` (path != () only below a deepcopy / json.loads result, whose
                        structure is unknown but disjoint from everything else)
Field labels: "*" (any element / any key), Event fields "data" "timestamp" "duration" "id" (attribute and
constant-subscript access are the same field), constant dict keys, ("k", name) for a key held in a parameter.
Fields of P / S / deep-copy nodes are materialised lazily (path extended, bounded by K); explicit stores are
kept in a flow-insensitive heap with weak updates; local variables are flow-sensitive (joined at merges, loops
iterated to a fixpoint).  Calls to resolved repo functions are analysed by inlining with the caller's abstract
arguments (context-sensitive; recursion cut at depth 4), so callee effects are recorded directly on the
caller's nodes.  Unknown external calls are assumed pure and to return fresh immutable values; they are listed.
"""
from __future__ import annotations

import ast

from .core import AnalysisError
from .model import ClassInfo, FuncInfo, norm, walk_own

K = 4
EVENT_FIELDS = ("data", "timestamp", "duration", "id")
IMMUTABLE_FIELDS = ("timestamp", "duration", "id")
MUTATORS = {"append", "extend", "insert", "pop", "remove", "clear", "sort", "reverse", "update", "setdefault", "popitem", "add", "discard", "appendleft", "popleft", "__setitem__", "__delitem__"}
PURE_METHODS = {
    "get", "keys", "values", "items", "copy", "count", "index", "startswith", "endswith", "isoformat", "total_seconds", "timestamp", "astimezone",
    "replace", "strip", "split", "find", "format", "lower", "upper", "join", "isdigit", "isalpha", "isdecimal", "search", "match", "findall", "sub",
    "compile", "fetchone", "fetchall", "cursor", "execute", "executemany", "commit", "json", "to_json_dict", "to_json_str", "intersection", "union",
    "gap", "intersects", "getChild", "info", "debug", "warning", "error", "desc", "where", "select", "order_by", "limit", "save", "delete", "create",
    "insert_many", "init", "connect", "close", "create_table", "from_event", "total", "isinstance", "fullmatch", "finditer", "utcoffset", "date",
    "lastrowid", "rowcount", "read", "write", "parse", "exists", "isfile", "now", "fromtimestamp", "dumps", "loads", "parse_date", "is_dir", "iterdir",
    "begin", "rollback", "atomic", "transaction", "execute_sql", "get_or_none", "first", "count", "exists", "scalar", "cache_clear", "cache_info",
}


def is_root(n, kind):
    return n[0] == kind


class Write:
    __slots__ = ("node", "label", "values", "loc", "how", "fn")

    def __init__(self, node, label, values, loc, how, fn):
        self.node, self.label, self.values, self.loc, self.how, self.fn = node, label, values, loc, how, fn

    def __repr__(self):
        return f"{fmt(self.node)}[{self.label}] <- {self.how} @ {self.loc}"


def fmt(n):
    if n[0] == "P":
        return f"param{n[1]}" + "".join(f".{p}" if isinstance(p, str) and p != "*" else ("[*]" if p == "*" else f"[{p[1]}]") for p in n[2])
    if n[0] == "S":
        return "self." + ".".join("[*]" if p == "*" else str(p) for p in n[1])
    if n[0] == "F":
        return f"fresh@{n[1]}" + "".join(f".{p}" if isinstance(p, str) and p != "*" else "[*]" for p in n[2])
    return str(n)


class HeapDict(dict):
    """(node, label) -> set(nodes), with an index node -> {label: same set}"""

    def __init__(self):
        super().__init__()
        self.idx = {}

    def __setitem__(self, k, v):
        super().__setitem__(k, v)
        self.idx.setdefault(k[0], {})[k[1]] = v

    def setdefault(self, k, d=None):
        if k not in self:
            self[k] = d
        return self[k]


class Analysis:
    def __init__(self, prog, entry: FuncInfo, param_names=None, self_is_store=True, max_depth=4):
        self.prog = prog
        self.entry = entry
        self.heap = HeapDict()  # (node, label) -> set(nodes)
        self.shallow: dict = {}  # node -> set(original nodes)
        self.imm_elements: set = set()  # module-level containers written as literals of constants
        self.definite: dict = {}  # dict-literal node -> constant keys that come after every dynamic key of the literal
        self.lazy: set = set()  # nodes whose fields materialise lazily (P, S, deep copies)
        self.writes: list[Write] = []
        self.unknown_calls: list = []
        self.unknown_methods_on_tracked: list = []
        self.returns: set = set()
        self.max_depth = max_depth
        self.self_is_store = self_is_store
        self._stack = []
        self.calls_inlined = []
        self.param_nodes = {}
        self.notes = []

    # ---- node helpers ------------------------------------------------------
    def child(self, n, label):
        """lazily materialised child of a summary-capable node"""
        if n[0] == "P":
            path = n[2]
            if len(path) >= K:
                return n
            return ("P", n[1], path + (label,))
        if n[0] == "S":
            path = n[1]
            if len(path) >= K + 1:
                return n
            return ("S", path + (label,))
        if n[0] == "F":
            path = n[2]
            if len(path) >= K:
                return n
            return ("F", n[1], path + (label,))
        return None

    def is_lazy(self, n):
        if n[0] in ("P", "S"):
            return True
        if n[0] == "F":
            return (n[0], n[1], ()) in self.lazy
        return False

    def read(self, nodes, label, _seen=None):
        out = set()
        if label in IMMUTABLE_FIELDS:
            return out
        _seen = _seen if _seen is not None else set()
        for n in nodes:
            if n[0] == "IMM" or n in _seen:
                continue
            _seen.add(n)
            definite = label in self.definite.get(n, ())
            for l, vs in list(self.heap.idx.get(n, {}).items()):
                if definite:
                    if l == label:
                        out |= vs
                    continue
                if l == label or l == "*" or label == "*" or (isinstance(l, tuple) and l[0] == "k") or (isinstance(label, tuple) and label[0] == "k"):
                    out |= vs
            if self.is_lazy(n) and n in self.imm_elements and not self.heap.idx.get(n):
                continue  # elements of a module-level table of literals (nothing was stored into it): immutable values
            if self.is_lazy(n):
                lab = label
                c = self.child(n, lab if not isinstance(lab, tuple) else "*")
                if c is not None:
                    out.add(c)
                if label == "*" and n[0] in ("P", "S", "F"):
                    # reading "any" of an Event-like summary node also reaches its data field
                    pass
            for o in self.shallow.get(n, ()):
                out |= self.read({o}, label, _seen)
        return out

    def write(self, nodes, label, values, loc, how, fn):
        for n in nodes:
            if n[0] == "IMM":
                continue
            self.writes.append(Write(n, label, frozenset(values), loc, how, fn))
            if n in self.definite and not isinstance(label, str) or label == "*":
                self.definite.pop(n, None)
            if values and label not in IMMUTABLE_FIELDS:
                self.heap.setdefault((n, label), set()).update(values)

    def fresh(self, site, lazy=False):
        n = ("F", site, ())
        if lazy:
            self.lazy.add(n)
        return n

    def children(self, n):
        """all nodes directly reachable from n (explicit edges, shallow originals' fields, lazy default children are NOT enumerated)"""
        out = set()
        for l, vs in self.heap.idx.get(n, {}).items():
            out |= vs
        for o in self.shallow.get(n, ()):
            # fields of the original are shared
            out |= self.read({o}, "*")
            out |= self.read({o}, "data")
        return out

    def closure(self, nodes):
        seen, work = set(), list(nodes)
        while work:
            n = work.pop()
            if n in seen or n[0] == "IMM":
                continue
            seen.add(n)
            work.extend(self.children(n))
        return seen

    @staticmethod
    def rooted(n, kind, idx=None):
        if n[0] != kind:
            return False
        return idx is None or n[1] == idx

    @staticmethod
    def under(a, b):
        """node a is b or lies below b (same root, path extends)"""
        if a[0] != b[0]:
            return False
        if a[0] == "P":
            return a[1] == b[1] and a[2][: len(b[2])] == b[2]
        if a[0] == "S":
            return a[1][: len(b[1])] == b[1]
        if a[0] == "F":
            return a[1] == b[1] and a[2][: len(b[2])] == b[2]
        return a == b

    # ---- entry -------------------------------------------------------------
    def run(self, args=None):
        fi = self.entry
        env = {}
        params = list(fi.params)
        idx = 0
        for i, p in enumerate(params):
            if i == 0 and p in ("self", "cls") and fi.cls is not None and not fi.is_static:
                env[p] = {("SELF",)}
                continue
            node = ("P", idx, ())
            self.param_nodes[p] = node
            env[p] = {node}
            idx += 1
        for p in fi.kwonly + ([fi.vararg] if fi.vararg else []) + ([fi.kwarg] if fi.kwarg else []):
            node = ("P", idx, ())
            self.param_nodes[p] = node
            env[p] = {node}
            idx += 1
        if args:
            env.update(args)
        ret = self.exec_function(fi, env)
        self.returns |= ret
        return self

    def exec_function(self, fi, env):
        ctx = _Frame(fi)
        self._stack.append(fi)
        try:
            self.exec_block(fi.node.body, env, ctx)
        finally:
            self._stack.pop()
        if ctx.yields is not None:
            lst = self.fresh(f"{fi.short}:gen")
            self.heap.setdefault((lst, "*"), set()).update(ctx.yields)
            return {lst}
        return ctx.returns

    # ---- statements --------------------------------------------------------
    def exec_block(self, stmts, env, ctx):
        for s in stmts:
            self.exec_stmt(s, env, ctx)

    def join(self, a, b):
        for k, v in b.items():
            if k in a:
                a[k] = a[k] | v
            else:
                a[k] = set(v)
        return a

    def exec_stmt(self, s, env, ctx):
        fi = ctx.fi
        if isinstance(s, ast.Assign):
            v = self.eval(s.value, env, ctx)
            for t in s.targets:
                self.assign(t, v, env, ctx, s)
        elif isinstance(s, ast.AnnAssign):
            if s.value is not None:
                self.assign(s.target, self.eval(s.value, env, ctx), env, ctx, s)
        elif isinstance(s, ast.AugAssign):
            v = self.eval(s.value, env, ctx)
            t = s.target
            if isinstance(t, ast.Name):
                cur = env.get(t.id, set())
                tracked = {n for n in cur if n[0] != "IMM"}
                if tracked and isinstance(s.op, ast.Add):
                    # list += iterable mutates in place
                    self.write(tracked, "*", self.read(v, "*"), fi.loc(s), "+=", fi.short)
                env[t.id] = cur | (v if not tracked else set())
            elif isinstance(t, ast.Attribute):
                base = self.eval(t.value, env, ctx)
                self.write(base, t.attr, set(), fi.loc(s), f".{t.attr} {type(s.op).__name__}=", fi.short)
            elif isinstance(t, ast.Subscript):
                base = self.eval(t.value, env, ctx)
                self.write(base, self.label(t.slice, env, ctx), set(), fi.loc(s), "[...] op=", fi.short)
        elif isinstance(s, ast.Expr):
            if isinstance(s.value, (ast.Yield, ast.YieldFrom)):
                self.eval(s.value, env, ctx)
            else:
                self.eval(s.value, env, ctx)
        elif isinstance(s, ast.Return):
            if s.value is not None:
                ctx.returns |= self.eval(s.value, env, ctx)
        elif isinstance(s, ast.If):
            self.eval(s.test, env, ctx)
            e1 = {k: set(v) for k, v in env.items()}
            e2 = {k: set(v) for k, v in env.items()}
            self.exec_block(s.body, e1, ctx)
            self.exec_block(s.orelse, e2, ctx)
            env.clear()
            env.update(self.join(e1, e2))
        elif isinstance(s, (ast.For, ast.AsyncFor)):
            it = self.eval(s.iter, env, ctx)
            for _ in range(6):
                before = (self._env_sig(env), self._heap_sig())
                self.assign(s.target, self.read(it, "*"), env, ctx, s)
                body_env = {k: set(v) for k, v in env.items()}
                self.exec_block(s.body, body_env, ctx)
                self.join(env, body_env)
                if (self._env_sig(env), self._heap_sig()) == before:
                    break
            self.exec_block(s.orelse, env, ctx)
        elif isinstance(s, ast.While):
            for _ in range(6):
                before = (self._env_sig(env), self._heap_sig())
                self.eval(s.test, env, ctx)
                body_env = {k: set(v) for k, v in env.items()}
                self.exec_block(s.body, body_env, ctx)
                self.join(env, body_env)
                if (self._env_sig(env), self._heap_sig()) == before:
                    break
            self.exec_block(s.orelse, env, ctx)
        elif isinstance(s, ast.Try):
            self.exec_block(s.body, env, ctx)
            for h in s.handlers:
                he = {k: set(v) for k, v in env.items()}
                self.exec_block(h.body, he, ctx)
                self.join(env, he)
            self.exec_block(s.orelse, env, ctx)
            self.exec_block(s.finalbody, env, ctx)
        elif isinstance(s, (ast.With, ast.AsyncWith)):
            for it in s.items:
                v = self.eval(it.context_expr, env, ctx)
                if it.optional_vars is not None:
                    self.assign(it.optional_vars, v, env, ctx, s)
            self.exec_block(s.body, env, ctx)
        elif isinstance(s, ast.Delete):
            for t in s.targets:
                if isinstance(t, ast.Subscript):
                    base = self.eval(t.value, env, ctx)
                    self.write(base, self.label(t.slice, env, ctx), set(), fi.loc(s), "del [...]", fi.short)
                elif isinstance(t, ast.Attribute):
                    base = self.eval(t.value, env, ctx)
                    self.write(base, t.attr, set(), fi.loc(s), f"del .{t.attr}", fi.short)
                elif isinstance(t, ast.Name):
                    env.pop(t.id, None)
        elif isinstance(s, (ast.FunctionDef, ast.AsyncFunctionDef)):
            env[s.name] = {("FN", id(s))}
            ctx.local_funcs[s.name] = (s, env)
        elif isinstance(s, ast.Raise):
            if s.exc is not None:
                self.eval(s.exc, env, ctx)
        elif isinstance(s, (ast.Pass, ast.Break, ast.Continue, ast.Import, ast.ImportFrom, ast.Global, ast.Nonlocal, ast.Assert, ast.ClassDef)):
            pass
        else:
            raise AnalysisError(f"E2: statement {type(s).__name__} not modelled ({fi.loc(s)})")

    def _env_sig(self, env):
        return tuple(sorted((k, tuple(sorted(map(str, v)))) for k, v in env.items()))

    def _heap_sig(self):
        return (sum(len(v) for v in self.heap.values()), len(self.writes))

    def label(self, k, env, ctx):
        if isinstance(k, ast.Constant) and isinstance(k.value, str):
            return k.value
        if isinstance(k, ast.Name) and k.id in ctx.fi.params and ctx.depth_params_are_keys:
            return ("k", k.id)
        if isinstance(k, ast.Name):
            # a key held in a variable that is a parameter of the *current* function
            f = ctx.fi
            if k.id in f.params:
                return ("k", k.id)
        return "*"

    def assign(self, t, v, env, ctx, stmt):
        fi = ctx.fi
        if isinstance(t, ast.Name):
            env[t.id] = set(v)
        elif isinstance(t, (ast.Tuple, ast.List)):
            # destructuring: each element may be any element of the value
            if isinstance(getattr(stmt, "value", None), (ast.Tuple, ast.List)) and len(stmt.value.elts) == len(t.elts) and not isinstance(stmt, (ast.For, ast.comprehension)):
                vals = [self.eval(x, env, ctx) for x in stmt.value.elts]
                for tt, vv in zip(t.elts, vals):
                    self.assign(tt, vv, env, ctx, None)
            else:
                # positional precision for tuple literals allocated with index labels
                for i, tt in enumerate(t.elts):
                    if isinstance(tt, ast.Starred):
                        tt = tt.value
                    pos = set()
                    for n in v:
                        if (n, ("i", i)) in self.heap:
                            pos |= self.heap[(n, ("i", i))]
                    self.assign(tt, pos if pos else self.read(v, "*"), env, ctx, None)
        elif isinstance(t, ast.Attribute):
            base = self.eval(t.value, env, ctx)
            if base == {("SELF",)}:
                self.write({("S", ())}, t.attr, v, fi.loc(stmt or t), f"self.{t.attr} =", fi.short)
                self.heap.setdefault((("S", (t.attr,)), "="), set()).update(v)
                if v:
                    # attribute of self now aliases v
                    self.heap.setdefault((("S", ()), t.attr), set()).update(v)
            else:
                self.write(base, t.attr, v, fi.loc(stmt or t), f".{t.attr} =", fi.short)
        elif isinstance(t, ast.Subscript):
            base = self.eval(t.value, env, ctx)
            self.write(base, self.label(t.slice, env, ctx), v, fi.loc(stmt or t), "[...] =", fi.short)
        elif isinstance(t, ast.Starred):
            self.assign(t.value, v, env, ctx, stmt)

    # ---- expressions -------------------------------------------------------
    def eval(self, e, env, ctx):
        fi = ctx.fi
        if e is None:
            return set()
        if isinstance(e, ast.Name):
            if e.id in env:
                return set(env[e.id])
            r = self.prog.lookup(fi, e.id)
            if isinstance(r, tuple) and r[0] == "const":
                v = r[2]
                if isinstance(v, (ast.Dict, ast.List, ast.Set)) or (isinstance(v, ast.Call) and norm(v.func).split(".")[-1] in ("dict", "list", "set", "defaultdict", "OrderedDict", "WeakValueDictionary", "deque")):
                    g = ("S", ("<global>", e.id))
                    elts = (list(v.values) if isinstance(v, ast.Dict) else list(v.elts)) if isinstance(v, (ast.Dict, ast.List, ast.Set)) else None
                    if elts is not None and all(isinstance(x, ast.Constant) for x in elts):
                        self.imm_elements.add(g)  # a table of literals: what is read out of it is immutable
                    return {g}  # module-level mutable container: process-wide shared state
            return set()
        if isinstance(e, ast.Constant):
            return set()
        if isinstance(e, ast.Attribute):
            base = self.eval(e.value, env, ctx)
            if base == {("SELF",)}:
                out = {("S", (e.attr,))}
                out |= self.heap.get((("S", ()), e.attr), set())
                return out
            if e.attr in IMMUTABLE_FIELDS:
                return set()
            if e.attr in EVENT_FIELDS or any(n[0] in ("P", "S", "F") for n in base):
                if e.attr == "data":
                    return self.read(base, "data")
                # unknown attribute of a tracked object: treat as immutable value (properties like .start/.scheme)
                return set()
            return set()
        if isinstance(e, ast.Subscript):
            base = self.eval(e.value, env, ctx)
            if isinstance(e.slice, ast.Slice):
                for part in (e.slice.lower, e.slice.upper, e.slice.step):
                    self.eval(part, env, ctx)
                n = self.fresh(f"{fi.short}:{e.lineno}:{e.col_offset}:slice")
                vals = self.read(base, "*")
                if vals:
                    self.heap.setdefault((n, "*"), set()).update(vals)
                return {n} if base else set()
            self.eval(e.slice, env, ctx)
            lab = self.label(e.slice, env, ctx)
            if isinstance(e.slice, ast.Constant) and isinstance(e.slice.value, int):
                pos = set()
                hit = False
                for n in base:
                    if (n, ("i", e.slice.value)) in self.heap:
                        pos |= self.heap[(n, ("i", e.slice.value))]
                        hit = True
                if hit:
                    return pos
            return self.read(base, lab)
        if isinstance(e, (ast.List, ast.Tuple, ast.Set)):
            n = self.fresh(f"{fi.short}:{e.lineno}:{e.col_offset}:{type(e).__name__.lower()}")
            for i, x in enumerate(e.elts):
                if isinstance(x, ast.Starred):
                    v = self.read(self.eval(x.value, env, ctx), "*")
                else:
                    v = self.eval(x, env, ctx)
                if v:
                    self.heap.setdefault((n, "*"), set()).update(v)
                if isinstance(e, ast.Tuple):
                    self.heap.setdefault((n, ("i", i)), set()).update(v)
            return {n}
        if isinstance(e, ast.Dict):
            n = self.fresh(f"{fi.short}:{e.lineno}:{e.col_offset}:dict")
            definite = set()
            for k, x in zip(e.keys, e.values):
                v = self.eval(x, env, ctx)
                if k is None:
                    self.shallow.setdefault(n, set()).update(v)
                    definite = set()
                    continue
                self.eval(k, env, ctx)
                if isinstance(k, ast.Constant) and isinstance(k.value, str):
                    lab = k.value
                    definite.add(lab)
                else:
                    lab = self.label(k, env, ctx)
                    definite = set()
                if v:
                    self.heap.setdefault((n, lab), set()).update(v)
            if definite and n not in self.heap.idx or definite:
                self.definite[n] = definite
            return {n}
        if isinstance(e, (ast.ListComp, ast.SetComp, ast.GeneratorExp, ast.DictComp)):
            inner = {k: set(v) for k, v in env.items()}
            n = self.fresh(f"{fi.short}:{e.lineno}:{e.col_offset}:comp")
            for _ in range(3):
                for g in e.generators:
                    it = self.eval(g.iter, inner, ctx)
                    self.assign(g.target, self.read(it, "*"), inner, ctx, g)
                    for c in g.ifs:
                        self.eval(c, inner, ctx)
                if isinstance(e, ast.DictComp):
                    self.eval(e.key, inner, ctx)
                    v = self.eval(e.value, inner, ctx)
                else:
                    v = self.eval(e.elt, inner, ctx)
                if v:
                    self.heap.setdefault((n, "*"), set()).update(v)
            return {n}
        if isinstance(e, ast.BoolOp):
            out = set()
            for x in e.values:
                out |= self.eval(x, env, ctx)
            return out
        if isinstance(e, ast.IfExp):
            self.eval(e.test, env, ctx)
            return self.eval(e.body, env, ctx) | self.eval(e.orelse, env, ctx)
        if isinstance(e, ast.BinOp):
            a, b = self.eval(e.left, env, ctx), self.eval(e.right, env, ctx)
            a = {n for n in a if n[0] != "IMM"}
            b = {n for n in b if n[0] != "IMM"}
            if isinstance(e.op, ast.Add) and (a or b):
                n = self.fresh(f"{fi.short}:{e.lineno}:{e.col_offset}:concat")
                vals = self.read(a, "*") | self.read(b, "*")
                if vals:
                    self.heap.setdefault((n, "*"), set()).update(vals)
                return {n}
            return set()
        if isinstance(e, (ast.Compare, ast.UnaryOp)):
            for x in ast.iter_child_nodes(e):
                if isinstance(x, ast.expr):
                    self.eval(x, env, ctx)
            return set()
        if isinstance(e, ast.JoinedStr):
            for v in e.values:
                if isinstance(v, ast.FormattedValue):
                    self.eval(v.value, env, ctx)  # the formatted expression runs (a call in it may write)
            return set()
        if isinstance(e, ast.FormattedValue):
            self.eval(e.value, env, ctx)
            return set()
        if isinstance(e, ast.Lambda):
            return set()
        if isinstance(e, ast.Starred):
            return self.eval(e.value, env, ctx)
        if isinstance(e, ast.Yield):
            v = self.eval(e.value, env, ctx) if e.value is not None else set()
            if ctx.yields is None:
                ctx.yields = set()
            ctx.yields |= v
            return set()
        if isinstance(e, ast.YieldFrom):
            v = self.read(self.eval(e.value, env, ctx), "*")
            if ctx.yields is None:
                ctx.yields = set()
            ctx.yields |= v
            return set()
        if isinstance(e, ast.Call):
            return self.call(e, env, ctx)
        if isinstance(e, ast.NamedExpr):
            v = self.eval(e.value, env, ctx)
            self.assign(e.target, v, env, ctx, None)
            return v
        if isinstance(e, ast.Await):
            return self.eval(e.value, env, ctx)
        raise AnalysisError(f"E2: expression {type(e).__name__} not modelled ({fi.loc(e)})")

    # ---- calls -------------------------------------------------------------
    def call(self, c, env, ctx):
        fi = ctx.fi
        site = f"{fi.short}:{c.lineno}:{c.col_offset}"
        f = c.func
        fname = norm(f)
        # the standard-library callables with a meaning here, under whatever local name they were imported
        imps = getattr(fi.mod, "imports", {})
        if isinstance(f, ast.Name) and f.id in imps and imps[f.id][1] and imps[f.id][0] in ("copy", "json") and not (ctx.fi.mod.funcs.get(f.id)):
            fname = f"{imps[f.id][0]}.{imps[f.id][1]}"
        elif isinstance(f, ast.Attribute) and isinstance(f.value, ast.Name) and f.value.id in imps and imps[f.value.id][1] is None and imps[f.value.id][0] in ("copy", "json"):
            fname = f"{imps[f.value.id][0]}.{f.attr}"
        args = [self.eval(a, env, ctx) for a in c.args]
        kwargs = {k.arg: self.eval(k.value, env, ctx) for k in c.keywords}
        starkw = [self.eval(k.value, env, ctx) for k in c.keywords if k.arg is None]

        def arg(i, name=None):
            if i < len(args):
                return args[i]
            if name and name in kwargs:
                return kwargs[name]
            return set()

        # --- copying / allocation idioms
        if fname in ("copy.deepcopy", "deepcopy"):
            if not any(n[0] != "IMM" for n in arg(0)) and not isinstance(c.args[0], ast.Name):
                return {self.fresh(site + ":deepcopy", lazy=True)}
            return {self.fresh(site + ":deepcopy", lazy=True)}
        if fname in ("json.loads", "json.load"):
            return {self.fresh(site + ":json", lazy=True)}
        if fname in ("copy.copy",) or (isinstance(f, ast.Attribute) and f.attr == "copy" and not c.args and fname != "copy.copy"):
            src_nodes = arg(0) if fname == "copy.copy" else self.eval(f.value, env, ctx)
            n = self.fresh(site + ":shallow")
            self.shallow.setdefault(n, set()).update(src_nodes)
            return {n}
        if fname in ("dict",):
            n = self.fresh(site + ":dict")
            if args:
                self.shallow.setdefault(n, set()).update(args[0])
            for k, v in kwargs.items():
                if k and v:
                    self.heap.setdefault((n, k), set()).update(v)
            return {n}
        if fname in ("list", "sorted", "reversed", "tuple", "set", "frozenset", "iter", "filter"):
            srcs = arg(1) if fname == "filter" else arg(0)
            n = self.fresh(site + f":{fname}")
            vals = self.read(srcs, "*")
            if vals:
                self.heap.setdefault((n, "*"), set()).update(vals)
            return {n}
        if fname == "enumerate":
            n = self.fresh(site + ":enumerate")
            t = self.fresh(site + ":enumerate-pair")
            vals = self.read(arg(0), "*")
            if vals:
                self.heap.setdefault((t, "*"), set()).update(vals)
                self.heap.setdefault((t, ("i", 1)), set()).update(vals)
            self.heap.setdefault((t, ("i", 0)), set())
            self.heap.setdefault((n, "*"), set()).add(t)
            return {n}
        if fname == "zip":
            n = self.fresh(site + ":zip")
            t = self.fresh(site + ":zip-pair")
            for i, a in enumerate(args):
                vals = self.read(a, "*")
                self.heap.setdefault((t, ("i", i)), set()).update(vals)
                if vals:
                    self.heap.setdefault((t, "*"), set()).update(vals)
            self.heap.setdefault((n, "*"), set()).add(t)
            return {n}
        if fname in ("max", "min"):
            if len(args) == 1:
                return self.read(args[0], "*")
            out = set()
            for a in args:
                out |= a
            return out
        if fname in ("reduce", "functools.reduce"):
            out = self.read(arg(1), "*") | arg(2)
            # apply the folding function once to see its effects / extra results
            fn = c.args[0] if c.args else None
            if isinstance(fn, ast.Name):
                r = self.prog.lookup(fi, fn.id)
                if isinstance(r, FuncInfo):
                    out |= self.inline(r, [out, out], {}, site)
            return out
        if fname == "map" and len(c.args) >= 2:
            fn = c.args[0]
            elems = self.read(args[1], "*")
            n = self.fresh(site + ":map")
            res = set()
            tgt = None
            if isinstance(fn, ast.Name):
                tgt = self.prog.lookup(fi, fn.id)
            if isinstance(tgt, FuncInfo):
                res = self.inline(tgt, [elems], {}, site)
            if res:
                self.heap.setdefault((n, "*"), set()).update(res)
            return {n}
        if fname == "Event" or (isinstance(f, ast.Name) and self._is_event_class(fi, f.id)):
            n = self.fresh(site + ":Event")
            for sk in starkw:
                self.shallow.setdefault(n, set()).update(sk)
            d = arg(3, "data")
            if d:
                self.heap.setdefault((n, "data"), set()).update(d)
            else:
                dd = self.fresh(site + ":Event.data")
                if not starkw:
                    self.heap.setdefault((n, "data"), set()).add(dd)
            return {n}
        if fname in ("len", "int", "float", "str", "bool", "isinstance", "hasattr", "print", "repr", "sum", "abs", "any", "all", "range", "type", "id", "round", "getattr", "timedelta", "signature", "bytes", "ord", "chr", "hash", "callable", "issubclass", "super", "open", "divmod", "format", "vars"):
            return set()
        # --- methods
        if isinstance(f, ast.Attribute):
            recv = self.eval(f.value, env, ctx)
            tracked = {n for n in recv if n[0] in ("P", "S", "F")}
            m = f.attr
            if recv == {("SELF",)}:
                callee = self.prog.method(fi.cls, m) if fi.cls is not None else None
                if callee is not None:
                    return self.inline(callee, args, kwargs, site, self_nodes=recv)
                return set()
            if tracked and m in MUTATORS:
                if m in ("append", "add", "appendleft"):
                    self.write(tracked, "*", arg(0), fi.loc(c), f".{m}()", fi.short)
                elif m == "insert":
                    self.write(tracked, "*", arg(1), fi.loc(c), ".insert()", fi.short)
                elif m == "extend":
                    self.write(tracked, "*", self.read(arg(0), "*"), fi.loc(c), ".extend()", fi.short)
                elif m == "update":
                    vals = self.read(arg(0), "*")
                    for v in kwargs.values():
                        vals |= v
                    self.write(tracked, "*", vals, fi.loc(c), ".update()", fi.short)
                elif m == "setdefault":
                    self.write(tracked, self.label(c.args[0], env, ctx) if c.args else "*", arg(1), fi.loc(c), ".setdefault()", fi.short)
                    return self.read(tracked, "*") | arg(1)
                else:
                    self.write(tracked, "*", set(), fi.loc(c), f".{m}()", fi.short)
                    if m in ("pop", "popitem", "popleft"):
                        return self.read(tracked, "*")
                return set()
            if tracked and m == "get":
                lab = self.label(c.args[0], env, ctx) if c.args else "*"
                return self.read(tracked, lab) | arg(1)
            if tracked and m in ("values", "keys", "items"):
                n = self.fresh(site + f":{m}")
                vals = self.read(tracked, "*") if m != "keys" else set()
                if m == "items":
                    t = self.fresh(site + ":item")
                    if vals:
                        self.heap.setdefault((t, "*"), set()).update(vals)
                        self.heap.setdefault((t, ("i", 1)), set()).update(vals)
                    self.heap.setdefault((t, ("i", 0)), set())
                    vals = {t}
                if vals:
                    self.heap.setdefault((n, "*"), set()).update(vals)
                return {n}
            if tracked and m == "to_json_dict":
                n = self.fresh(site + ":to_json_dict")
                self.shallow.setdefault(n, set()).update(tracked)
                return {n}
            # resolved repo methods / functions reached through attributes
            callees = self.prog.resolve_call(c, fi)
            if callees:
                out = set()
                for callee in callees:
                    if callee.cls is not None and not callee.is_static and not callee.is_classmethod and callee.params and callee.params[0] == "self":
                        out |= self.inline(callee, args, kwargs, site, self_nodes=recv or {("OBJ", callee.cls.name)})
                    elif callee.is_classmethod:
                        out |= self.inline(callee, args, kwargs, site, self_nodes={("CLS", callee.cls.name)})
                    else:
                        out |= self.inline(callee, args, kwargs, site)
                return out
            if tracked and m not in PURE_METHODS:
                self.unknown_methods_on_tracked.append((fi.loc(c), norm(c)[:80], sorted(map(fmt, tracked))[:3]))
            else:
                self.unknown_calls.append((fi.loc(c), fname))
            return set()
        if isinstance(f, ast.Name):
            # local closure?
            if f.id in ctx.local_funcs:
                node, defenv = ctx.local_funcs[f.id]
                lf = fi.nested.get(f.id)
                if lf is not None:
                    return self.inline(lf, args, kwargs, site, closure_env=env)
            r = self.prog.lookup(fi, f.id)
            if isinstance(r, FuncInfo):
                return self.inline(r, args, kwargs, site)
            if isinstance(r, ClassInfo):
                init = self.prog.method(r, "__init__")
                n = self.fresh(site + f":{r.name}")
                if init is not None:
                    self.inline(init, args, kwargs, site, self_nodes={n})
                return {n}
            self.unknown_calls.append((fi.loc(c), fname))
            return set()
        if isinstance(f, ast.Subscript):
            callees = self.prog.resolve_call(c, fi)
            out = set()
            for callee in callees:
                out |= self.inline(callee, args, kwargs, site)
            if not callees:
                self.unknown_calls.append((fi.loc(c), fname))
            return out
        self.unknown_calls.append((fi.loc(c), fname))
        return set()

    def _is_event_class(self, fi, name):
        r = self.prog.lookup(fi, name)
        return isinstance(r, ClassInfo) and r.name == "Event"

    def inline(self, callee, args, kwargs, site, self_nodes=None, closure_env=None):
        if len(self._stack) >= self.max_depth + 2 or self._stack.count(callee) >= 2:
            self.notes.append(f"recursion/inlining cut at {callee.short} from {site}")
            out = set()
            for a in args:
                out |= a
            return out
        # decorated query functions: look through the wrappers by binding positionally on the undecorated signature
        env = {}
        if closure_env is not None:
            env.update({k: set(v) for k, v in closure_env.items()})
        params = list(callee.params)
        if callee.cls is not None and not callee.is_static and params and params[0] in ("self", "cls") and callee.outer is None:
            env[params[0]] = set(self_nodes) if self_nodes else {("OBJ", callee.cls.name)}
            params = params[1:]
        for i, p in enumerate(params):
            if i < len(args):
                env[p] = set(args[i])
            elif p in kwargs:
                env[p] = set(kwargs[p])
            else:
                env[p] = set()
        for p in callee.kwonly:
            env[p] = set(kwargs.get(p, set()))
        if callee.vararg:
            n = self.fresh(site + ":varargs")
            for a in args[len(params):]:
                if a:
                    self.heap.setdefault((n, "*"), set()).update(a)
            env[callee.vararg] = {n}
        if callee.kwarg:
            env[callee.kwarg] = set()
        self.calls_inlined.append((site, callee.short))
        res = self.exec_function(callee, env)
        if any(d.split("(")[0].split(".")[-1] in ("lru_cache", "cache", "cached_property", "memoize") for d in callee.decorators):
            # a memoised function hands the SAME object to every caller and keeps it: it is shared, process-wide state
            c = ("S", ("<memo>", callee.short))
            self.heap.setdefault((c, "*"), set()).update(res)
            self.notes.append(f"{callee.short} is memoised: its results are retained and shared ({site})")
        return res


class _Frame:
    def __init__(self, fi):
        self.fi = fi
        self.returns = set()
        self.yields = None
        self.local_funcs = {}
        self.depth_params_are_keys = False


def analyse(prog, fi, **kw):
    return Analysis(prog, fi, **kw).run()


# ---------------------------------------------------------------------------
# derived facts


def mutations_of_param(an: Analysis, idx):
    """writes whose target lies at or below parameter idx"""
    return [w for w in an.writes if w.node[0] == "P" and w.node[1] == idx]


def store_closure(an: Analysis):
    roots = {n for (n, l) in an.heap if n[0] == "S"}
    roots |= {("S", ())}
    cl = set()
    for r in roots:
        cl |= an.closure({r})
    return cl


def own_in_violations(an: Analysis):
    """parameter-reachable mutable objects that became reachable from self"""
    cl = store_closure(an)
    return sorted({n for n in cl if n[0] == "P"}, key=str)


def own_out_violations(an: Analysis):
    """returned objects that are (or reach, or are reached from) the store"""
    rc = an.closure(an.returns)
    sc = store_closure(an)
    bad = {n for n in rc if n[0] == "S" and n != ("S", ())}
    bad |= {n for n in rc if n in sc and n[0] != "S"}
    # objects retained by a memoising decorator are process-wide state as well: every caller gets the same object
    memo = {n for (n, l) in an.heap if n[0] == "S" and len(n) > 1 and n[1] and n[1][0] == "<memo>"}
    if memo:
        mc = an.closure(memo)
        bad |= {n for n in rc if n in mc and n[0] not in ("S", "IMM")}
    return sorted(bad, key=str)
