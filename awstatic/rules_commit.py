"""Commit-discipline rules of the lazily-committing sqlite store (C06-D1, C18-D1)."""
from __future__ import annotations

import ast
from fractions import Fraction

from .affine import CLOCK, Env, NonAffine, lin, literal
from .cfg import cfg_of
from .core import AnalysisError
from .model import norm, src, walk_own, walk_with_nested_exprs, parent
from .sqlmodel import sql_sites, single_def

BUCKET_LEVEL = ("create_bucket", "update_bucket", "delete_bucket")
EVENT_LEVEL_EXPECTED = ("insert_one", "insert_many", "replace", "replace_last", "delete")


def self_calls(fi, name):
    out = []
    for n in walk_with_nested_exprs(fi.node):
        if isinstance(n, ast.Call) and isinstance(n.func, ast.Attribute) and n.func.attr == name and isinstance(n.func.value, ast.Name) and n.func.value.id == "self":
            out.append(n)
    return out


def in_loop(node):
    n = parent(node)
    while n is not None and not isinstance(n, (ast.FunctionDef, ast.AsyncFunctionDef)):
        if isinstance(n, (ast.For, ast.While, ast.ListComp, ast.GeneratorExp, ast.SetComp, ast.DictComp)):
            return True
        n = parent(n)
    return False


def check_commit_discipline(prog, rep, prop="C06"):
    """C06-D1 (a)-(f).  Returns the dict of DML sites per method for reuse."""
    cls = prog.cls("SqliteStorage")
    sites = sql_sites(prog)
    rep.floor("sqlite execute sites", len(sites), 14)
    dml = [s for s in sites if s.stmt.is_dml]
    rep.floor("sqlite DML sites", len(dml), 6)
    by_method = {}
    for s in dml:
        if s.fi.cls is not cls:
            rep.violation("COMMIT-F", s.fi.short, f"{s.stmt.kind.upper()} {s.stmt.table}", "DML statement issued outside SqliteStorage's methods", s.loc())
            continue
        by_method.setdefault(s.fi.name, []).append(s)
    for s in sites:
        rep.unit("sql_statements", f"{s.fi.short}:{s.call.lineno} {s.stmt.text()[:100]}")

    rep.rule("COMMIT-A", "bucket-level operations (create/update/delete_bucket): every path from a DML statement to a normal exit passes through self.commit(); no commit between the statements of one operation")
    rep.rule("COMMIT-B", "event-level operations: every path from a DML statement to a normal exit passes through self.conditional_commit(n) or self.commit(), n = 1 for execute and len(rows) of the very list given to executemany")
    rep.rule("COMMIT-C", "conditional_commit: lazy branch adds its argument to the counter before the threshold test, threshold is an integer literal <= 60, its true branch commits; the non-lazy branch commits")
    rep.rule("COMMIT-D", "commit(): calls self.conn.commit() and then resets the counter on every path")
    rep.rule("COMMIT-E", "a single-event operation is exactly one DML statement, not in a loop")
    rep.rule("COMMIT-F", "only SqliteStorage methods touch the connection: no .conn access, no SQL execute and no rollback elsewhere; conn.commit() only inside commit()")

    # (a) and (b)
    for mname, ss in sorted(by_method.items()):
        fi = cls.methods[mname]
        g = cfg_of(fi)
        rep.unit("functions", fi.qname)
        commits = {g.node_of(c) for c in self_calls(fi, "commit")}
        ccommits = {g.node_of(c): c for c in self_calls(fi, "conditional_commit")}
        if mname in BUCKET_LEVEL:
            for s in ss:
                n = g.node_of(s.call)
                ok, w = g.must_pass(n, commits)
                cons = f"{s.stmt.kind.upper()} {s.stmt.table} -> exit"
                if ok:
                    rep.ok("COMMIT-A", fi.short, cons, "every path to a normal exit passes self.commit()", s.loc())
                else:
                    rep.violation("COMMIT-A", fi.short, cons, "a path from the statement reaches a normal exit without self.commit(): the bucket operation is acknowledged but not durable", s.loc(), path=w)
            # never split
            nodes = [g.node_of(s.call) for s in ss]
            for i, a in enumerate(nodes):
                for b in nodes[i + 1 :]:
                    ra = g.reach_avoiding([a])
                    rb = _reaching(g, b)
                    mid = (ra & rb) & (commits | set(ccommits))
                    cons = f"between statements at lines {g.nodes[a].line} and {g.nodes[b].line}"
                    if mid:
                        rep.violation("COMMIT-A", fi.short, cons, "a commit separates two statements of one bucket-level operation: a crash in between splits the operation", fi.loc(g.nodes[sorted(mid)[0]].ast))
                    else:
                        rep.ok("COMMIT-A", fi.short, cons, "no commit between the statements", fi.loc())
        else:
            for s in ss:
                n = g.node_of(s.call)
                good = set(commits)
                sliced_peers = [x for x in ss if getattr(x, "sliced", False) and x.rows_var == s.rows_var]
                undecided_slices = False
                for cn, c in ccommits.items():
                    r_ = _count_arg_ok(c, s, fi)
                    if r_ == "one-slice":
                        if len(sliced_peers) == 1:
                            good.add(cn)
                        else:
                            undecided_slices = True
                    elif r_:
                        good.add(cn)
                ok, w = g.must_pass(n, good)
                cons = f"{s.stmt.kind.upper()} {s.stmt.table} -> exit"
                if not ok and undecided_slices:
                    rep.undecided("COMMIT-B", fi.short, cons, f"{len(sliced_peers)} executemany statements write slices of `{s.rows_var}` and one conditional_commit(len({s.rows_var})) counts them: right exactly when the slices are disjoint, which this rule does not decide", s.loc())
                    continue
                if ok:
                    rep.ok("COMMIT-B", fi.short, cons, "every path to a normal exit passes conditional_commit(n)/commit() with n = rows written", s.loc())
                else:
                    bad_n = [c for cn, c in ccommits.items() if cn not in good]
                    why = "a path from the statement reaches a normal exit without conditional_commit()/commit(): the write never counts towards the commit batch, so the uncommitted tail is unbounded"
                    if bad_n:
                        why = f"conditional_commit({norm(bad_n[0].args[0]) if bad_n[0].args else ''}) does not follow / does not count the rows written by this statement (expected {'len(' + (s.rows_var or 'rows') + ')' if s.many else ('len(' + s.replicated_over + '): one placeholder per element' if getattr(s, 'replicated_over', None) else '1')}): the counter under-counts and the tail is unbounded"
                    rep.violation("COMMIT-B", fi.short, cons, why, s.loc(), path=w)
            if mname in ("insert_one", "replace", "replace_last", "delete"):
                ok = len(ss) == 1 and not in_loop(ss[0].call) and not ss[0].many
                rep.check(ok, "COMMIT-E", fi.short, "single statement", "exactly one DML statement, not in a loop", f"{len(ss)} DML statements or a loop: a single-event operation could be split by a crash", fi.loc())
    for m in BUCKET_LEVEL + EVENT_LEVEL_EXPECTED:
        if m not in by_method:
            if m == "insert_one" or m in cls.methods:
                # method exists but has no DML of its own: must delegate
                fi = cls.methods.get(m)
                if fi is None:
                    rep.error(f"anchor vanished: SqliteStorage.{m}")
                    continue
                delegates = [c for c in walk_with_nested_exprs(fi.node) if isinstance(c, ast.Call) and isinstance(c.func, ast.Attribute) and isinstance(c.func.value, ast.Name) and c.func.value.id == "self" and c.func.attr in by_method]
                if delegates:
                    rep.ok("COMMIT-B", fi.short, "delegation", f"no statement of its own; delegates to {sorted({d.func.attr for d in delegates})}", fi.loc())
                else:
                    rep.undecided("COMMIT-B", fi.short, "no DML", "write method without a DML statement or a delegation the analysis recognises", fi.loc())

    # (c) conditional_commit
    check_conditional_commit_paths(prog, rep)
    check_conditional_commit(prog, rep)
    # (d) commit
    fi = cls.methods.get("commit")
    if fi is None:
        raise AnalysisError("anchor vanished: SqliteStorage.commit")
    g = cfg_of(fi)
    rep.unit("functions", fi.qname)
    conn_commits = [n for n in walk_own(fi.node) if isinstance(n, ast.Call) and norm(n.func) == "self.conn.commit"]
    resets = [n for n in walk_own(fi.node) if isinstance(n, ast.Assign) and any(norm(t) == "self.num_uncommitted_statements" for t in n.targets) and isinstance(n.value, ast.Constant) and n.value.value == 0]
    if not conn_commits:
        rep.violation("COMMIT-D", fi.short, "self.conn.commit()", "commit() does not commit the connection", fi.loc())
    else:
        cn = g.node_of(conn_commits[0])
        ok = g.postdominates(cn, g.entry)
        rep.check(ok, "COMMIT-D", fi.short, "self.conn.commit()", "on every path", "self.conn.commit() is not reached on every path through commit()", fi.loc(conn_commits[0]))
        if not resets:
            rep.violation("COMMIT-D", fi.short, "counter reset", "commit() does not reset num_uncommitted_statements: after the first threshold crossing every write would commit (harmless) — but the counter no longer measures the uncommitted tail", fi.loc())
        else:
            rn = g.node_of(resets[0])
            ok = g.postdominates(rn, g.entry)
            rep.check(ok, "COMMIT-D", fi.short, "counter reset", "counter reset on every path", "counter reset is conditional", fi.loc(resets[0]))

    commit_failure_propagates(prog, rep, "COMMIT-D")
    # (f) who may touch the connection
    n_checked = 0
    for f2 in prog.funcs.values():
        for n in walk_with_nested_exprs(f2.node):
            if isinstance(n, ast.Attribute) and n.attr == "conn" and f2.cls is not cls:
                # any .conn on something that may be a storage
                rep.violation("COMMIT-F", f2.short, "access to .conn", "the sqlite connection is reached from outside SqliteStorage", f2.loc(n))
            if isinstance(n, ast.Call) and isinstance(n.func, ast.Attribute):
                if n.func.attr == "rollback" and f2.mod.name.startswith("aw_datastore"):
                    rep.violation("COMMIT-F", f2.short, "rollback()", "a rollback discards acknowledged writes", f2.loc(n))
                if norm(n.func) == "self.conn.commit" and f2.cls is cls:
                    n_checked += 1
                    if f2.name != "commit":
                        rep.violation("COMMIT-F", f2.short, "self.conn.commit()", "raw connection commit outside commit(): the counter and last_commit are not reset", f2.loc(n))
    rep.ok("COMMIT-F", "SqliteStorage", "who-may-call", f"{len(prog.funcs)} functions scanned; conn.commit() sites: {n_checked}", None)
    # sqlite3.connect(...) must not request autocommit-off semantics we do not model
    init = cls.methods.get("__init__")
    for n in walk_own(init.node):
        if isinstance(n, ast.Call) and norm(n.func) == "sqlite3.connect":
            for kw in n.keywords:
                if kw.arg in ("isolation_level", "autocommit"):
                    v = kw.value
                    cv = v.value if isinstance(v, ast.Constant) else "?"
                    auto = (kw.arg == "isolation_level" and cv is None) or (kw.arg == "autocommit" and cv is True)
                    same = (kw.arg == "isolation_level" and isinstance(cv, str) and cv.upper() in ("", "DEFERRED", "IMMEDIATE", "EXCLUSIVE")) or (kw.arg == "autocommit" and cv is False)
                    if auto:
                        multi = sorted(m for m, ss in by_method.items() if len(ss) > 1 or any(in_loop(x.call) or x.many for x in ss))
                        rep.violation("COMMIT-F", init.short, f"sqlite3.connect({kw.arg}={norm(v)})", f"the connection is opened in autocommit mode: every statement is its own transaction and self.conn.commit() has nothing to commit, so the statements of one operation are no longer applied together: a crash between the statements of {multi or 'a multi-statement operation'} leaves a split operation in the file (e.g. delete_bucket: the events gone, the bucket row still there)", init.loc(n))
                    elif same:
                        rep.ok("COMMIT-F", init.short, f"sqlite3.connect({kw.arg}={norm(v)})", "a transaction is opened implicitly before the first DML statement, as with the default", init.loc(n))
                    else:
                        rep.undecided("COMMIT-F", init.short, f"sqlite3.connect({kw.arg}=...)", "transaction mode changed from the default the argument relies on", init.loc(n))
    mode_flag(prog, rep)
    txn_free(prog, rep, by_method)
    own_connection(prog, rep)
    return by_method


DURABLE_JOURNALS = ("WAL", "DELETE", "TRUNCATE", "PERSIST")
FILE_REMOVERS = ("os.remove", "os.unlink", "os.rename", "os.replace", "os.truncate", "shutil.rmtree", "shutil.move", "shutil.copy", "shutil.copyfile", "shutil.copy2", "os.rmdir", "os.removedirs")


def own_connection(prog, rep):
    """what the crash argument takes for granted about the file and the connection"""
    cls = prog.cls("SqliteStorage")
    init = cls.methods.get("__init__")
    from .trace import deep

    rep.rule("CONN", "each SqliteStorage owns its connection: self.conn is bound once, in __init__, to sqlite3.connect(...) itself (the commit counters are per object: a connection shared through a module-level table lets K objects buffer K x threshold rows in one transaction); the journal mode asked for keeps the rollback information on disk (WAL / DELETE / TRUNCATE / PERSIST: with MEMORY / OFF a crash inside a transaction leaves a half-applied operation or a corrupt file); nothing in the module removes, renames or truncates files (the -wal file next to the database holds committed transactions that were not checkpointed yet)")
    asg = [(m, n) for m in cls.methods.values() for n in walk_own(m.node) if isinstance(n, ast.Assign) and any(norm(t) == "self.conn" for t in n.targets)]
    for m, n in asg:
        v = deep(n.value, m)
        direct = isinstance(v, ast.Call) and norm(v.func) in ("sqlite3.connect", "connect")
        if m.name != "__init__":
            rep.violation("CONN", m.short, "self.conn =", "the connection is re-bound outside the constructor", m.loc(n))
        elif direct:
            rep.ok("CONN", m.short, "self.conn =", "sqlite3.connect(...) of its own", m.loc(n))
        elif any(isinstance(x, ast.Subscript) for x in ast.walk(v)) or any(isinstance(x, ast.Call) and isinstance(x.func, ast.Attribute) and x.func.attr in ("get", "setdefault") for x in ast.walk(v)):
            rep.violation("CONN", m.short, "self.conn =", f"`self.conn = {norm(n.value)[:60]}` takes the connection out of a table (`{norm(v)[:60]}`): storage objects on the same file share one connection and therefore one open transaction, while each counts its own buffered statements; with K objects up to K times the documented number of completed writes is lost in a crash, and one object's commit / rollback ends the other's transaction", m.loc(n))
        else:
            rep.undecided("CONN", m.short, "self.conn =", f"unrecognised connection source `{norm(v)[:70]}`", m.loc(n))
    if not asg:
        cm_ = cls.methods.get("conn")
        if cm_ is not None:
            rep.violation("CONN", cm_.short, "conn is computed", f"`conn` is a property / method of SqliteStorage ({cm_.short}), not an attribute bound once in the constructor: the connection a call sees depends on who calls (a connection per thread, per call ...) while last_commit and the statement counter are per object: a commit on one connection stamps the shared bookkeeping although rows buffered on another connection stay uncommitted, so neither the count nor the age bound holds for them", cm_.loc())
        else:
            rep.undecided("CONN", "SqliteStorage", "self.conn =", "no assignment of self.conn found", None)
    # commit() runs when it is called: nothing is wrapped around it that can drop or defer the call
    for mn_ in ("commit", "conditional_commit"):
        m_ = cls.methods.get(mn_)
        if m_ is not None and m_.decorators:
            rep.violation("CONN", m_.short, f"decorated with {m_.decorators}", f"{m_.short} is wrapped by `{m_.decorators[0]}`: a wrapper decides whether / when the flush really runs (rate limits, deferral, swallowing): a commit the discipline counts on (the one before a read, the one the age test asks for) may silently not happen", m_.loc())
    for s_ in sql_sites(prog):
        if s_.stmt.kind == "pragma" and str(s_.stmt.table).lower() == "journal_mode":
            arg = (getattr(s_.stmt, "pragma_arg", None) or "").upper()
            rep.check(arg in DURABLE_JOURNALS, "CONN", s_.fi.short, f"PRAGMA journal_mode={arg}", "a journal that survives a crash", f"`{s_.stmt.raw[:50]}`: with journal_mode={arg} the rollback journal is not on disk; a process that dies inside a transaction (the lazy store is almost always inside one) leaves the database with part of the transaction applied: an operation is split, or the file is corrupt", s_.loc())
    mi = prog.module("aw_datastore.storages.sqlite")
    for fi in [f for f in prog.funcs.values() if f.mod is mi]:
        for c in walk_with_nested_exprs(fi.node):
            if isinstance(c, ast.Call) and (norm(c.func) in FILE_REMOVERS or (isinstance(c.func, ast.Attribute) and c.func.attr in ("unlink", "rmdir", "rename", "replace", "write_text", "write_bytes", "touch") and not (isinstance(c.func.value, ast.Name) and c.func.value.id in ("self",)) and c.func.attr in ("unlink", "rmdir")) ):
                rep.violation("CONN", fi.short, norm(c.func), f"`{norm(c)[:60]}` removes / renames a file from the storage module: the files next to the database (-wal, -shm, -journal) ARE part of the database; the -wal file holds every transaction committed since the last checkpoint, so deleting it on start-up throws away acknowledged, committed writes", fi.loc(c))


TXN_FREE_PRAGMAS = ("wal_checkpoint", "journal_mode", "locking_mode", "auto_vacuum", "incremental_vacuum", "foreign_keys")


def txn_free(prog, rep, by_method=None, rule="COMMIT-F"):
    """statements SQLite refuses (or ignores) while a transaction is open run only where none can be open"""
    cls = prog.cls("SqliteStorage")
    if by_method is None:
        by_method = {}
        for s_ in sql_sites(prog):
            if s_.stmt.is_dml and s_.fi.cls is cls:
                by_method.setdefault(s_.fi.name, []).append(s_)
    sites = [s for s in sql_sites(prog) if s.fi.cls is cls and (s.stmt.kind == "vacuum" or (s.stmt.kind == "pragma" and str(s.stmt.table).lower() in TXN_FREE_PRAGMAS))]
    rep.rule("TXN-FREE", "VACUUM and the pragmas SQLite refuses or ignores inside a transaction (wal_checkpoint, journal_mode, locking_mode, auto_vacuum, foreign_keys) are executed only where no transaction can be open: in __init__ before the first write (DML statement, migration, writing method), elsewhere only after self.commit() with no write in between; the lazy store keeps its transaction open between calls")
    for s in sites:
        fi = s.fi
        g = cfg_of(fi)
        sn = g.node_of(s.call)
        dirty, clean = set(), set()
        for c in prog.all_calls(fi):
            t = norm(c.func)
            if t in ("self.commit", "self.conn.commit"):
                clean.add(g.node_of(c))
            elif t == "check_for_migration" or (isinstance(c.func, ast.Attribute) and isinstance(c.func.value, ast.Name) and c.func.value.id == "self" and (c.func.attr in by_method or c.func.attr == "conditional_commit")):
                dirty.add(g.node_of(c))
        for d in by_method.get(fi.name, []):
            dirty.add(g.node_of(d.call))
        starts = set(dirty)
        if fi.name != "__init__":
            starts.add(g.entry)
        reach = g.reach_avoiding(list(starts), avoid=frozenset(clean), include_start=(fi.name != "__init__"))
        open_ = sn in reach
        what = f"{s.stmt.kind.upper()} {s.stmt.table or ''}".strip()
        rep.check(not open_, "TXN-FREE", fi.short, what, "no transaction can be open here", f"`{s.stmt.raw[:60]}` runs where the lazy store may have a transaction open (" + ("after the migration / a write with no commit in between" if fi.name == "__init__" else "buffered writes of earlier calls are uncommitted on entry, and nothing commits before this statement") + "): SQLite refuses it ('database table is locked' / 'cannot ... from within a transaction'), the exception leaves the method, and the buffered rows (e.g. the tail of a migration) are rolled back when the object is dropped", s.loc())


def _truth(e, env):
    """three-valued truth of a small boolean expression under env (name -> True/False/None-object marker 'none'); None = unknown"""
    if isinstance(e, ast.Constant):
        return bool(e.value)
    if isinstance(e, ast.Name):
        v = env.get(e.id, "?")
        return None if v == "?" else (False if v == "none" else v)
    if isinstance(e, ast.UnaryOp) and isinstance(e.op, ast.Not):
        t = _truth(e.operand, env)
        return None if t is None else not t
    if isinstance(e, ast.Call) and isinstance(e.func, ast.Name) and e.func.id == "bool" and len(e.args) == 1:
        return _truth(e.args[0], env)
    if isinstance(e, ast.BoolOp):
        ts = [_truth(v, env) for v in e.values]
        if isinstance(e.op, ast.Or):
            if any(t is True for t in ts):
                # value of `a or b` is the first truthy operand: truthy
                return True if all(t is not None for t in ts[: ts.index(True)]) else None
            return False if all(t is False for t in ts) else None
        if any(t is False for t in ts):
            return False if all(t is not None for t in ts[: ts.index(False)]) else None
        return True if all(t is True for t in ts) else None
    if isinstance(e, ast.IfExp):
        c = _truth(e.test, env)
        if c is None:
            a, b = _truth(e.body, env), _truth(e.orelse, env)
            return a if a == b else None
        return _truth(e.body if c else e.orelse, env)
    if isinstance(e, ast.Compare) and len(e.ops) == 1 and isinstance(e.ops[0], (ast.Is, ast.IsNot, ast.Eq, ast.NotEq)) and isinstance(e.left, ast.Name):
        r = e.comparators[0]
        v = env.get(e.left.id, "?")
        if v == "?" or not isinstance(r, ast.Constant):
            return None
        rv = "none" if r.value is None else r.value
        eq = v == rv if isinstance(rv, (bool, str)) or rv == "none" else None
        if eq is None:
            return None
        return eq if isinstance(e.ops[0], (ast.Is, ast.Eq)) else not eq
    return None


def mode_flag(prog, rep, rule="COMMIT-C"):
    """the commit mode the store runs in is the one its constructor was asked for"""
    cls = prog.cls("SqliteStorage")
    init = cls.methods.get("__init__")
    if init is None or "enable_lazy_commit" not in init.params:
        return
    asg = [n for n in walk_own(init.node) if isinstance(n, ast.Assign) and any(norm(t) == "self.enable_lazy_commit" for t in n.targets)]
    others = [(m, n) for m in cls.methods.values() if m is not init for n in walk_own(m.node) if isinstance(n, (ast.Assign, ast.AugAssign)) and any(norm(t) == "self.enable_lazy_commit" for t in (n.targets if isinstance(n, ast.Assign) else [n.target]))]
    for m, n in others:
        rep.violation(rule, m.short, "self.enable_lazy_commit re-assigned", "the commit mode is changed after construction: a store opened as auto-committing may buffer writes", m.loc(n))
    if len(asg) != 1:
        if asg:
            rep.undecided(rule, init.short, "self.enable_lazy_commit", f"{len(asg)} assignments of the mode flag", init.loc(asg[0]))
        return
    from .trace import deep

    v = deep(asg[0].value, init)
    f = _truth(v, {"enable_lazy_commit": False})
    t = _truth(v, {"enable_lazy_commit": True})
    if f is False and t is True:
        rep.ok(rule, init.short, "mode flag", f"self.enable_lazy_commit = {norm(asg[0].value)[:60]}: False stays falsy, True stays truthy", init.loc(asg[0]))
    elif f is True:
        rep.violation(rule, init.short, "mode flag", f"`self.enable_lazy_commit = {norm(asg[0].value)[:80]}` is truthy when the caller passes enable_lazy_commit=False: the store that was asked to commit every operation buffers them like the lazy one, and completed operations are lost when the process exits without shutdown", init.loc(asg[0]), expected="self.enable_lazy_commit = enable_lazy_commit", found=norm(asg[0].value))
    elif t is False:
        rep.violation(rule, init.short, "mode flag", f"`self.enable_lazy_commit = {norm(asg[0].value)[:80]}` is falsy when the caller passes enable_lazy_commit=True", init.loc(asg[0]))
    else:
        rep.undecided(rule, init.short, "mode flag", f"cannot decide the truth value of `{norm(asg[0].value)[:80]}` for enable_lazy_commit in (False, True)", init.loc(asg[0]))


def _reaching(g, b):
    """nodes from which b is reachable"""
    seen, work = set(), [b]
    while work:
        u = work.pop()
        for p, _ in g.pred[u]:
            if p not in seen:
                seen.add(p)
                work.append(p)
    return seen


def _count_arg_ok(ccall, site, fi):
    """conditional_commit(n): n must count the rows written by `site`."""
    if len(ccall.args) != 1 or ccall.keywords:
        return False
    a = ccall.args[0]
    if isinstance(a, ast.Name):
        v = single_def(fi, a.id)
        if v is not None:
            a = v
    if not site.many and getattr(site, "replicated_over", None):
        # one placeholder per element of a sequence (id IN (?, ?, ...)): the statement changes up to len(sequence) rows
        return isinstance(a, ast.Call) and norm(a.func) == "len" and len(a.args) == 1 and norm(a.args[0]) == site.replicated_over
    if not site.many:
        return isinstance(a, ast.Constant) and isinstance(a.value, int) and not isinstance(a.value, bool) and a.value >= 1
    # executemany(query, rows) -> len(rows)
    if isinstance(a, ast.Call) and isinstance(a.func, ast.Name) and a.func.id == "len" and len(a.args) == 1 and isinstance(a.args[0], ast.Name):
        if site.rows_var is not None and a.args[0].id == site.rows_var:
            if getattr(site, "sliced", False):
                # a slice holds at most len(rows) rows: counting len(rows) for it over-counts at worst (an earlier flush).
                # Several statements over slices of the same list, counted once, may under-count: that needs the slices to be
                # disjoint, which is arithmetic this rule does not do
                return "one-slice"
            return True
        if getattr(site, "chunk_var", None) is not None and a.args[0].id == site.chunk_var:
            return True  # rows are written chunk by chunk and counted chunk by chunk
        # len(events_insert) where rows is built one row per element of that list
        return _rows_built_from(fi, site.rows_var, a.args[0].id)
    return False


def _rows_built_from(fi, rows_var, src_var):
    """rows.append(...) sits directly in `for x in src_var:` with no condition/continue around it."""
    if rows_var is None:
        return False
    for n in walk_own(fi.node):
        if isinstance(n, ast.For) and isinstance(n.iter, ast.Name) and n.iter.id == src_var:
            for st in n.body:
                if isinstance(st, ast.Expr) and isinstance(st.value, ast.Call) and norm(st.value.func) == f"{rows_var}.append":
                    if not any(isinstance(x, (ast.Continue, ast.Break, ast.Return)) for x in ast.walk(n)):
                        return True
    return False


def cc_cases(prog):
    """path summaries of conditional_commit, once per mode (lazy / not lazy).  Attributes the constructor derives from its
    enable_lazy_commit parameter (`self.x = A if enable_lazy_commit else B`) take their value of that mode; in the non-lazy
    mode the counter is 0 on entry (every call commits).  -> {mode: (summaries, unresolved attribute names)}"""
    from .affine import Form, State
    from .paths import summarize

    cls = prog.cls("SqliteStorage")
    fi = cls.methods.get("conditional_commit")
    init = cls.methods.get("__init__")
    if fi is None or init is None:
        raise AnalysisError("anchor vanished: SqliteStorage.conditional_commit / __init__")
    used = {n.attr for n in ast.walk(fi.node) if isinstance(n, ast.Attribute) and isinstance(n.value, ast.Name) and n.value.id == "self" and isinstance(n.ctx, ast.Load)}
    used -= {"enable_lazy_commit", "num_uncommitted_statements", "last_commit", "conn", "commit", "logger"}
    out = {}
    for lazy in (True, False):
        vals, unresolved = {}, []
        for a in sorted(used):
            defs = [n for m in cls.methods.values() for n in walk_own(m.node) if isinstance(n, (ast.Assign, ast.AnnAssign, ast.AugAssign)) and any(norm(t) == f"self.{a}" for t in (n.targets if isinstance(n, ast.Assign) else [n.target]))]
            v = defs[0].value if len(defs) == 1 and any(defs[0] is x for x in walk_own(init.node)) and not isinstance(defs[0], ast.AugAssign) else None
            if isinstance(v, ast.IfExp):
                t = norm(v.test)
                if t in ("enable_lazy_commit", "self.enable_lazy_commit"):
                    v = v.body if lazy else v.orelse
                elif t in ("not enable_lazy_commit", "not self.enable_lazy_commit"):
                    v = v.orelse if lazy else v.body
            try:
                f = lin(v, Env(init, prog)) if v is not None else None
            except NonAffine:
                f = None
            if f is not None and f.is_const():
                vals[f"self.{a}"] = f
            else:
                unresolved.append(a)
        if not lazy:
            vals["self.num_uncommitted_statements"] = Form(const=0)
        sums, _ = summarize(fi, env=Env(fi, prog, inline_locals=True), init_state=State(vals), dnf=True)
        keep = [ps for ps in sums if ("self.enable_lazy_commit", not lazy) not in ps.opaque and ("not self.enable_lazy_commit", lazy) not in ps.opaque]
        out[lazy] = (keep, unresolved)
    return fi, out


def _commits(ps):
    return any(norm(c.func) == "self.commit" for c in ps.calls)


def _path_text(ps):
    return "; ".join(sorted(f"{'' if p else 'not '}{t}" for t, p in ps.opaque) + sorted(repr(l) for l in ps.lits))[:200]


def check_conditional_commit_paths(prog, rep):
    """COMMIT-C decided per path, whatever the shape of conditional_commit: see the rule text."""
    from .affine import Form, Lit, infeasible, normalize_lits

    rep.rule("COMMIT-C", "conditional_commit, per path and per mode: (not lazy) every path commits; (lazy) a path that does not commit has added exactly its argument to the counter and carries a condition that bounds the new counter value by 60; the mode-dependent attributes the constructor derives from enable_lazy_commit are replaced by their value in that mode")
    fi, cases = cc_cases(prog)
    N, n = Form.atom("self.num_uncommitted_statements"), Form.atom(fi.params[1])
    for lazy, (sums, unresolved) in cases.items():
        rep.unit("paths", f"conditional_commit [{'lazy' if lazy else 'not lazy'}]: {len(sums)} paths")
        for ps in sums:
            if ps.kind == "raise" or _commits(ps):
                continue
            if ps.undecided:
                rep.undecided("COMMIT-C", fi.short, "path", f"{ps.undecided[0]}", fi.loc())
                continue
            if not lazy:
                # feasible only if some call with at least one statement can take it
                if infeasible(normalize_lits(set(ps.lits) | {Lit(Form(const=1) - n, "<=")})):
                    continue
                rep.violation("COMMIT-C", fi.short, "non-lazy mode", f"with lazy committing switched off a call can return without committing (path: {_path_text(ps)}): an acknowledged write is lost by a crash although the store was asked to commit every write", fi.loc(ps.stmts[-1]) if ps.stmts else fi.loc(), found=ps.describe())
                continue
            new = ps.state.vals.get("self.num_uncommitted_statements")
            if new is None:
                rep.violation("COMMIT-C", fi.short, "counter increment", f"a path through the lazy mode returns without committing and without counting its statements (path: {_path_text(ps)}): the counter under-counts and the uncommitted tail is unbounded", fi.loc(ps.stmts[-1]) if ps.stmts else fi.loc(), found=ps.describe())
                continue
            if not (new - N - n).is_const() or (new - N - n).const != 0:
                rep.violation("COMMIT-C", fi.short, "counter increment", f"the counter goes from N to {new!r} on a path that does not commit, not to N + {fi.params[1]}: it does not count the statements written", fi.loc(), expected=f"N + {fi.params[1]}", found=repr(new))
                continue
            bounded = infeasible(normalize_lits(set(ps.lits) | {Lit(Form(const=60) - new, "<")}))
            if not bounded and unresolved and any(f"self.{a}" in l.form.atoms() for l in ps.lits for a in unresolved):
                rep.undecided("COMMIT-C", fi.short, "threshold", f"the count test uses self.{unresolved[0]}, whose value the analysis cannot resolve", fi.loc())
                continue
            rep.check(bounded, "COMMIT-C", fi.short, "returns without committing only under the count bound", "path condition implies counter <= 60", f"a path returns without committing and nothing on it bounds the counter by 'a few dozen' (path: {_path_text(ps)}; counter afterwards {new!r}): more acknowledged writes than that can be lost by a crash", fi.loc(ps.stmts[-1]) if ps.stmts else fi.loc(), found=ps.describe())
    rep.floor("conditional_commit paths (both modes)", sum(len(v[0]) for v in cases.values()), 3)


def check_age_paths(prog, rep):
    """AGE decided per path: a lazy-mode path that returns without committing knows that the last commit is recent."""
    from .affine import Form, Lit, infeasible, normalize_lits

    fi, cases = cc_cases(prog)
    sums, _ = cases[True]
    age = Form.atom(CLOCK) - Form.atom("self.last_commit")
    for ps in sums:
        if ps.kind == "raise" or _commits(ps) or ps.undecided:
            continue
        recent = infeasible(normalize_lits(set(ps.lits) | {Lit(Form(const=15) - age, "<")}))
        rep.check(recent, "AGE", fi.short, "returns without committing only while the last commit is recent", "path condition implies now - last_commit <= 15 s", f"in lazy mode a path returns without committing although nothing on it says the last commit is recent (path: {_path_text(ps)}): a buffered write can stay uncommitted for longer than about ten seconds", fi.loc(ps.stmts[-1]) if ps.stmts else fi.loc(), found=ps.describe())


def check_conditional_commit(prog, rep):
    cls = prog.cls("SqliteStorage")
    fi = cls.methods.get("conditional_commit")
    if fi is None:
        raise AnalysisError("anchor vanished: SqliteStorage.conditional_commit")
    g = cfg_of(fi)
    rep.unit("functions", fi.qname)
    commits = {g.node_of(c) for c in self_calls(fi, "commit")}
    lazy = [n for n in g.nodes if n.kind == "branch" and norm(n.ast) == "self.enable_lazy_commit"]
    if len(lazy) != 1:
        rep.note("COMMIT-C: no single `if self.enable_lazy_commit` test; the structural sub-checks are skipped, the per-path rule decides")
        return None
    lz = lazy[0]
    t_succ = [v for v, lab in g.succ[lz.id] if lab and lab[2] is True]
    f_succ = [v for v, lab in g.succ[lz.id] if lab and lab[2] is False]
    # non-lazy branch commits
    okf = True
    for v in f_succ:
        if v in commits:
            continue
        reach = g.reach_avoiding([v], avoid=commits, include_start=True)
        if g.exit in reach:
            okf = False
    rep.check(okf, "COMMIT-C", fi.short, "non-lazy branch", "commits on every path", "the non-lazy branch can return without committing", fi.loc(lz.ast))
    # lazy branch: counter increment then threshold
    param = fi.params[1] if len(fi.params) > 1 else None
    incs = [n for n in g.nodes if n.kind == "stmt" and isinstance(n.ast, ast.AugAssign) and norm(n.ast.target) == "self.num_uncommitted_statements" and isinstance(n.ast.op, ast.Add)]
    incs += [n for n in g.nodes if n.kind == "stmt" and isinstance(n.ast, ast.Assign) and norm(n.ast.targets[0]) == "self.num_uncommitted_statements" and isinstance(n.ast.value, ast.BinOp) and isinstance(n.ast.value.op, ast.Add)]
    thr = []
    for n in g.nodes:
        if n.kind == "branch" and isinstance(n.ast, ast.Compare) and "num_uncommitted_statements" in norm(n.ast):
            thr.append(n)
    if not incs:
        rep.violation("COMMIT-C", fi.short, "counter increment", "the lazy branch never adds the number of statements to the counter: the uncommitted tail is unbounded", fi.loc())
    else:
        inc = incs[0]
        val = inc.ast.value if isinstance(inc.ast, ast.AugAssign) else None
        if val is None:
            b = inc.ast.value
            val = b.right if norm(b.left) == "self.num_uncommitted_statements" else b.left
        okv = isinstance(val, ast.Name) and val.id == param
        rep.check(okv, "COMMIT-C", fi.short, "counter increment", f"counter += {param}", f"counter is increased by {norm(val)}, not by the number of statements passed in ({param})", fi.loc(inc.ast))
        # on every lazy path: reach_avoiding from lazy-true successors avoiding inc must not hit exit
        for v in t_succ:
            if v == inc.id:
                continue
            reach = g.reach_avoiding([v], avoid={inc.id}, include_start=True)
            if g.exit in reach:
                rep.violation("COMMIT-C", fi.short, "counter increment", "a path through the lazy branch skips the counter increment", fi.loc(inc.ast))
    if len(thr) != 1:
        if not thr:
            rep.violation("COMMIT-C", fi.short, "threshold test", "no count threshold: nothing bounds the number of uncommitted writes", fi.loc())
        else:
            rep.undecided("COMMIT-C", fi.short, "threshold test", f"{len(thr)} tests on the counter", fi.loc())
        return lz
    th = thr[0]
    try:
        lit = literal(th.ast, Env(fi, prog, inline_locals=False))
    except NonAffine as e:
        rep.undecided("COMMIT-C", fi.short, "threshold test", f"not affine: {e}", fi.loc(th.ast))
        return lz
    c = lit.form.coef("self.num_uncommitted_statements")
    if lit.form.atoms() != {"self.num_uncommitted_statements"} or c == 0 or lit.op not in ("<", "<="):
        rep.undecided("COMMIT-C", fi.short, "threshold test", f"unrecognised form {lit!r}", fi.loc(th.ast))
        return lz
    # form: c*N + k (<|<=) 0.  c<0: N > K (true branch = over threshold); c>0: N < K (false branch = over threshold)
    K = -lit.form.const / c
    over_polarity = c < 0
    okk = Fraction(1) <= K <= Fraction(60) and K.denominator == 1
    rep.check(okk, "COMMIT-C", fi.short, "threshold value", f"threshold {K} (<= 60: 'a few dozen, about 50')", f"threshold {K} is outside [1, 60]: more than a few dozen acknowledged writes can be lost", fi.loc(th.ast), expected="integer literal in [1, 60]", found=str(K))
    over = [v for v, lab in g.succ[th.id] if lab and lab[2] is over_polarity]
    okc = True
    for v in over:
        if v in commits:
            continue
        if g.exit in g.reach_avoiding([v], avoid=commits, include_start=True):
            okc = False
    rep.check(okc and bool(over), "COMMIT-C", fi.short, "threshold branch", "over-threshold branch commits", "the over-threshold branch can return without committing", fi.loc(th.ast))
    if incs:
        okd = g.dominates(incs[0].id, th.id)
        rep.check(okd, "COMMIT-C", fi.short, "increment before test", "increment dominates the threshold test", "the threshold is tested before the counter is increased", fi.loc(th.ast))
    # every lazy path evaluates the threshold test
    for v in t_succ:
        reach = g.reach_avoiding([v], avoid={th.id} | commits, include_start=(v != th.id))
        if v != th.id and g.exit in reach:
            rep.violation("COMMIT-C", fi.short, "threshold test", "a path through the lazy branch skips the threshold test", fi.loc(th.ast))
    return lz


def check_age_test(prog, rep):
    """C18-D1."""
    cls = prog.cls("SqliteStorage")
    fi = cls.methods.get("conditional_commit")
    if fi is None:
        raise AnalysisError("anchor vanished: SqliteStorage.conditional_commit")
    g = cfg_of(fi)
    rep.unit("functions", fi.qname)
    rep.rule("AGE", "on the lazy branch a test canonically equal to  now - self.last_commit - d > 0 (or >=), now a clock read of this call, d a constant in [1 s, 15 s], is evaluated on every path that has not already committed, and its true branch commits")
    rep.rule("AGE-STAMP", "commit() assigns self.last_commit from a clock read on every path; __init__ initialises it")
    commits = {g.node_of(c) for c in self_calls(fi, "commit")}
    lazy = [n for n in g.nodes if n.kind == "branch" and norm(n.ast) == "self.enable_lazy_commit"]
    if len(lazy) != 1:
        rep.note("AGE: no single `if self.enable_lazy_commit` test; the structural sub-checks are skipped, the per-path rule decides")
        check_age_paths(prog, rep)
        return
    check_age_paths(prog, rep)
    lz = lazy[0]
    cands = [n for n in g.nodes if n.kind == "branch" and "last_commit" in _deep_text(n.ast, fi)]
    if not cands:
        rep.violation("AGE", fi.short, "age test", "no test involving self.last_commit: buffered writes are never flushed by age", fi.loc())
        return
    good = []
    for n in cands:
        cons = "age test"
        wraps = [x for x in ast.walk(n.ast) if isinstance(x, ast.Attribute) and x.attr in ("seconds", "microseconds") and not isinstance(parent(x), ast.keyword)]
        if wraps:
            rep.violation("AGE", fi.short, cons, f"`{norm(n.ast)}` reads timedelta.{wraps[0].attr}, which wraps at one day (it is the seconds *component*, not the total): after an idle period of N days plus a few seconds the age looks small and the write stays buffered", fi.loc(n.ast), expected="(now - last_commit) > timedelta(seconds=d)  or  .total_seconds() > d", found=norm(n.ast))
            continue
        try:
            lit = literal(n.ast, Env(fi, prog))
        except NonAffine as e:
            rep.undecided("AGE", fi.short, cons, f"test on last_commit is not affine: {e}", fi.loc(n.ast))
            continue
        f = lit.form
        if f.atoms() != {CLOCK, "self.last_commit"} or lit.op not in ("<", "<="):
            rep.undecided("AGE", fi.short, cons, f"unrecognised form {lit!r}", fi.loc(n.ast))
            continue
        cc, cl = f.coef(CLOCK), f.coef("self.last_commit")
        if cc + cl != 0:
            rep.undecided("AGE", fi.short, cons, f"unrecognised form {lit!r}", fi.loc(n.ast))
            continue
        # form = cc*(now - last) + k  (<|<=) 0
        # true branch means: cc<0: now-last > k/(-cc) ... ; cc>0: now-last < -k/cc
        if cc < 0:
            # -|cc|*(now-last) + k < 0  <=>  now-last > k/|cc|
            d = f.const / abs(cc)
            true_means_old = True
        else:
            # cc*(now-last) + k < 0 <=> now-last < -k/cc : true branch = recent; false branch = old
            d = -f.const / cc
            true_means_old = False
        found = f"now - last_commit {'>' if true_means_old else '<'}{'=' if lit.op == '<=' else ''} {d} s"
        if d < 0 or (d == 0 and not true_means_old):
            rep.violation("AGE", fi.short, cons, f"the age test reads `{norm(n.ast)}`, i.e. {found}: with a non-decreasing clock now - last_commit >= 0, so the flushing branch is dead or inverted", fi.loc(n.ast), expected="now - last_commit > d, d in [1, 15] s", found=found)
            continue
        if not (Fraction(1) <= d <= Fraction(15)):
            rep.violation("AGE", fi.short, cons, f"age threshold is {float(d)} s, not 'about ten seconds'", fi.loc(n.ast), expected="d in [1, 15] s", found=found)
            continue
        old = [v for v, lab in g.succ[n.id] if lab and lab[2] is true_means_old]
        okc = bool(old)
        for v in old:
            if v in commits:
                continue
            if g.exit in g.reach_avoiding([v], avoid=commits, include_start=True):
                okc = False
        if not okc:
            rep.violation("AGE", fi.short, cons, "the branch taken when the last commit is old does not commit on every path", fi.loc(n.ast))
            continue
        # clock read must happen in this call: CLOCK came from a call expression inside this function (lin inlines single-def locals only)
        good.append(n)
        rep.ok("AGE", fi.short, cons, f"`{norm(n.ast)}` == {found}; old branch commits", fi.loc(n.ast))
    if not good:
        if not any(o.status != "ok" and o.rule == "AGE" for o in rep.obligations):
            rep.violation("AGE", fi.short, "age test", "no usable age test", fi.loc())
        return
    # evaluated on every lazy path that has not committed
    t_succ = [v for v, lab in g.succ[lz.id] if lab and lab[2] is True]
    goodset = {n.id for n in good}
    okp = True
    for v in t_succ:
        if v in goodset or v in commits:
            continue
        reach = g.reach_avoiding([v], avoid=goodset | commits, include_start=True)
        if g.exit in reach:
            okp = False
            w = g.witness(v, g.exit, avoid=goodset | commits)
    if okp:
        rep.ok("AGE", fi.short, "placement", "every lazy path that has not committed evaluates the age test", fi.loc())
    else:
        rep.violation("AGE", fi.short, "placement", "a path through the lazy branch returns without committing and without evaluating the age test (e.g. the test is nested under the count test): a slow trickle of writes is never flushed by age", fi.loc(good[0].ast), path=g.describe_path(w))
    # stamp
    cfi = cls.methods.get("commit")
    cg = cfg_of(cfi)
    stamps = [n for n in walk_own(cfi.node) if isinstance(n, ast.Assign) and any(norm(t) == "self.last_commit" for t in n.targets)]
    if not stamps:
        rep.violation("AGE-STAMP", cfi.short, "self.last_commit", "commit() does not record the commit time: the age test measures the time since start-up", cfi.loc())
    else:
        st = stamps[0]
        try:
            f = lin(st.value, Env(cfi, prog))
            okv = f == lin(ast.parse("datetime.now()").body[0].value)
        except NonAffine:
            okv = False
        okd = cg.postdominates(cg.node_of(st), cg.entry)
        rep.check(okv and okd, "AGE-STAMP", cfi.short, "self.last_commit", "assigned from a clock read on every path", f"self.last_commit = {norm(st.value)} is not an unconditional clock read", cfi.loc(st))
    init = cls.methods.get("__init__")
    istamps = [n for n in walk_own(init.node) if isinstance(n, ast.Assign) and any(norm(t) == "self.last_commit" for t in n.targets)]
    rep.check(bool(istamps), "AGE-STAMP", init.short, "self.last_commit", "initialised", "self.last_commit is never initialised", init.loc())
    commit_failure_propagates(prog, rep, "AGE-STAMP")
    # one clock: the instant the age is measured from and the instant it is measured at must come from the same clock
    kinds = {}
    for n in good:
        kinds[f"age test ({fi.short})"] = _clock_kinds(n.ast, fi)
    for st_, f_ in [(x, cfi) for x in stamps] + [(x, init) for x in istamps]:
        kinds[f"stamp ({f_.short}:{st_.lineno})"] = _clock_kinds(st_.value, f_)
    distinct = {frozenset(v) for v in kinds.values()}
    rep.check(len(distinct) == 1 and all(len(v) == 1 for v in kinds.values()), "AGE-STAMP", fi.short, "one clock", f"{sorted(next(iter(distinct)))}" if distinct else "", f"the age is the difference of readings of different clocks {({k: sorted(v) for k, v in kinds.items()})}: local wall time and UTC differ by the UTC offset, so the computed age is hours off (east of UTC it never exceeds the threshold and buffered writes are not flushed by age; west of UTC every write commits)", fi.loc(), expected="the same clock call in the stamps and in the age test", found=str({k: sorted(v) for k, v in kinds.items()}))


def commit_failure_propagates(prog, rep, rule):
    """a flush that failed must not be booked as a flush: if self.conn.commit() sits in a try, every handler re-raises"""
    cls = prog.cls("SqliteStorage")
    fi = cls.methods.get("commit")
    if fi is None:
        return
    for c in [n for n in walk_own(fi.node) if isinstance(n, ast.Call) and norm(n.func) == "self.conn.commit"]:
        p = parent(c)
        tries = []
        child = c
        while p is not None and p is not fi.node:
            if isinstance(p, ast.Try) and any(child is x or any(child is y for y in ast.walk(x)) for x in p.body):
                tries.append(p)
            child, p = p, parent(p)
        bad = None
        for t in tries:
            for h in t.handlers:
                last = h.body[-1] if h.body else None
                if not isinstance(last, ast.Raise):
                    bad = h
        rep.check(bad is None, rule, fi.short, "a failed conn.commit() propagates", "no handler swallows the failure", f"`except {norm(bad.type) if bad is not None and bad.type is not None else ''}` around self.conn.commit() does not re-raise: when the flush fails (database locked, disk full) commit() still stamps last_commit and zeroes the counter, so the failed flush is booked as a flush: the write that triggered it returns un-flushed, and both the count bound and the age bound start over", fi.loc(bad if bad is not None else c))


def check_no_rollback(prog, rep, rule="NO-ROLLBACK"):
    """the lazily-committing store keeps acknowledged writes of *all* buckets in one open transaction: nothing may roll it back"""
    cls = prog.cls("SqliteStorage")
    rep.rule(rule, "no construct in aw_datastore can roll back the sqlite connection's open transaction: no .rollback() call, no `with <connection>` block (sqlite3 rolls back on an exception and commits behind commit()'s back otherwise), no executescript(); acknowledged but not yet committed writes of other operations and other buckets live in that transaction")
    n = 0
    for f2 in prog.funcs.values():
        n += 1
        aliases = {"self.conn"}
        for x in walk_own(f2.node):
            if isinstance(x, ast.Assign) and norm(x.value) == "self.conn":
                aliases |= {norm(t) for t in x.targets}
        for x in walk_with_nested_exprs(f2.node):
            if f2.cls is not cls and ((isinstance(x, ast.Attribute) and x.attr == "conn") or (isinstance(x, ast.Call) and isinstance(x.func, ast.Name) and x.func.id == "getattr" and len(x.args) >= 2 and isinstance(x.args[1], ast.Constant) and x.args[1].value == "conn")):
                rep.violation(rule, f2.short, "access to the connection", f"`{norm(x)[:60]}` reaches the sqlite connection from outside SqliteStorage: whoever holds it can commit, roll back or enter it as a context manager (which rolls the open transaction back when the block raises) behind the store's back", f2.loc(x))
            if isinstance(x, ast.Call) and isinstance(x.func, ast.Attribute) and x.func.attr == "rollback" and "db" not in norm(x.func.value).split(".")[-1:]:
                rep.violation(rule, f2.short, "rollback()", f"`{norm(x)}` discards every write acknowledged since the last commit, including those of other operations and other buckets", f2.loc(x))
            if isinstance(x, ast.Call) and isinstance(x.func, ast.Attribute) and x.func.attr == "executescript":
                rep.violation(rule, f2.short, "executescript()", "executescript() commits the open transaction behind commit()'s back", f2.loc(x))
            if isinstance(x, (ast.With, ast.AsyncWith)):
                for it in x.items:
                    ce = it.context_expr
                    conn_like = norm(ce) in aliases if f2.cls is cls else (isinstance(ce, ast.Attribute) and ce.attr == "conn") or (isinstance(ce, ast.Name) and isinstance(single_def(f2, ce.id), ast.Attribute) and single_def(f2, ce.id).attr == "conn") or (isinstance(ce, ast.Name) and isinstance(single_def(f2, ce.id), ast.Call) and norm(single_def(f2, ce.id).func) == "getattr" and len(single_def(f2, ce.id).args) >= 2 and norm(single_def(f2, ce.id).args[1]) == "'conn'")
                    if conn_like:
                        rep.violation(rule, f2.short, f"with {norm(it.context_expr)}", f"`with {norm(it.context_expr)}:` makes sqlite3 roll the whole open transaction back when the block raises (and commit it, without resetting the counters, when it does not): an error in this operation discards earlier acknowledged writes of other operations and other buckets", f2.loc(x))
    # rollbacks spelled in SQL: a conflict clause OR ROLLBACK, a ROLLBACK statement (ROLLBACK TO <savepoint> only undoes back
    # to the savepoint and is not one); COMMIT / END / RELEASE of an outermost savepoint end the transaction behind commit()'s back
    from .sqlmodel import sql_sites

    for s_ in sql_sites(prog):
        st = s_.stmt
        if getattr(st, "on_conflict", None) == "ROLLBACK":
            rep.violation(rule, s_.fi.short, f"{st.kind.upper()} OR ROLLBACK", "the conflict clause OR ROLLBACK makes SQLite roll back the WHOLE open transaction when the statement hits a constraint (e.g. an insert into a bucket that does not exist): every write acknowledged since the last commit, of every bucket, is silently discarded while later writes commit normally -- the file is no longer a prefix of the issued writes", s_.loc())
        if st.kind == "txn" and st.verb == "ROLLBACK" and not getattr(st, "to_savepoint", False):
            rep.violation(rule, s_.fi.short, "ROLLBACK statement", "an SQL ROLLBACK discards every write acknowledged since the last commit", s_.loc())
        if st.kind == "txn" and st.verb in ("COMMIT", "END") and s_.fi.short != "SqliteStorage.commit":
            rep.violation("COMMIT-F", s_.fi.short, f"{st.verb} statement", "the transaction is ended by an SQL statement outside commit(): counter and time stamp are not reset", s_.loc())
    rep.ok(rule, "aw_datastore", "scan", f"{n} functions scanned", None)


def check_fresh_age(prog, rep):
    """the age is measured from the previous flush: an event write must not flush (and re-stamp) before it writes"""
    from .sqlmodel import sql_sites

    cls = prog.cls("SqliteStorage")
    rep.rule("AGE-FRESH", "in an event write (insert_one, insert_many, replace, replace_last, delete) no call that commits unconditionally (self.commit() or a method of the class that calls it, e.g. the read-your-writes commit of the readers) can be followed by a statement or delegated write of the same operation: such a flush re-stamps last_commit just before the write, so the age test that follows always sees a fresh stamp and the write itself stays buffered however late it comes")
    # methods that commit outright (not through conditional_commit)
    committers = {"commit"}
    changed = True
    while changed:
        changed = False
        for name, fi in cls.methods.items():
            if name in committers or name == "conditional_commit":
                continue
            if any(self_calls(fi, c) for c in committers):
                committers.add(name)
                changed = True
    dml = {}
    for s_ in sql_sites(prog):
        if s_.fi.cls is cls and s_.stmt.kind in ("insert", "update", "delete"):
            dml.setdefault(s_.fi.name, []).append(s_.call)
    n = 0
    for m in EVENT_LEVEL_EXPECTED:
        fi = cls.methods.get(m)
        if fi is None:
            continue
        g = cfg_of(fi)
        flushes = [c for name in committers for c in self_calls(fi, name)]
        writes = list(dml.get(m, [])) + self_calls(fi, "conditional_commit") + [c for w in EVENT_LEVEL_EXPECTED for c in self_calls(fi, w)]
        wn = {g.node_of(c) for c in writes}
        for c in flushes:
            n += 1
            after = g.reach_avoiding([g.node_of(c)])
            hit = sorted(after & wn)
            rep.check(not hit, "AGE-FRESH", fi.short, f"self.{c.func.attr}() before the write", "no flush precedes the write of the same operation", f"self.{c.func.attr}() commits (and stamps last_commit) before the write at line {g.nodes[hit[0]].line if hit else '?'}: the age test after the write then always sees an age of ~0 s, so a write issued long after the previous flush returns un-flushed", fi.loc(c))
        if not flushes:
            rep.ok("AGE-FRESH", fi.short, "no flush before the write", f"calls none of {sorted(committers)}", fi.loc())
    rep.extra["unconditional_committers"] = sorted(committers)


def _clock_kinds(e, fi):
    """normalised texts of the clock reads an expression is built from (single-def locals expanded)"""
    from .affine import CLOCK_CALLS

    out = set()
    seen = set()

    def rec(x, depth=0):
        for n in ast.walk(x):
            if isinstance(n, ast.Call) and norm(n.func) in CLOCK_CALLS:
                out.add(norm(n).replace("datetime.datetime.", "datetime."))
            elif isinstance(n, ast.Name) and n.id not in seen and depth < 4:
                seen.add(n.id)
                v = single_def(fi, n.id)
                if v is not None:
                    rec(v, depth + 1)

    rec(e)
    return out


def _deep_text(e, fi):
    """text of e with single-def locals expanded one level (to see through `age = now - self.last_commit`)."""
    t = norm(e)
    for n in ast.walk(e):
        if isinstance(n, ast.Name):
            v = single_def(fi, n.id)
            if v is not None:
                t += " " + norm(v)
                for m in ast.walk(v):
                    if isinstance(m, ast.Name):
                        v2 = single_def(fi, m.id)
                        if v2 is not None:
                            t += " " + norm(v2)
    return t
