"""WRAP — Datastore and Bucket are stateless pass-throughs to the storage.

Several arguments elsewhere (ownership, frame, newest-event agreement, read-only queries) speak about the storage
methods and then say "the wrappers only forward".  This rule decides that sentence:

  state      the only state a wrapper keeps is the table of Bucket handles (Datastore.bucket_instances); no other attribute
             of self is stored into by key, appended to, or assigned outside __init__ (a cache would answer later reads)
  reads      every read method returns what the storage call returned (the call itself, or a local bound once to it)
  arguments  every argument of a storage call is one of: self.bucket_id / a parameter / a keyword pack / a constant;
             recognised derivations: the ms rounding of the window edges in Bucket.get (decided by C03-ROUND) and
             `created or now(utc)` -> .isoformat() in create_bucket
  purity     a wrapper does not write into the objects it is given (effect analysis, E2)
"""
from __future__ import annotations

import ast

from .heap import Analysis, mutations_of_param
from .model import norm, walk_own, walk_with_nested_exprs
from .trace import deep

ALLOWED_STATE = {"Datastore": {"logger", "bucket_instances", "storage_strategy"}, "Bucket": {"logger", "ds", "bucket_id"}}
READS = {"Bucket": ["metadata", "get", "get_by_id", "get_eventcount"], "Datastore": ["buckets"]}
WRITES = {"Bucket": ["insert", "delete", "replace", "replace_last"], "Datastore": ["create_bucket", "update_bucket", "delete_bucket"]}
STORAGE = ("self.ds.storage_strategy", "self.storage_strategy")


def _pack_edits(fi, name):
    """statements of fi that write into the *args / **kwargs pack `name`"""
    out = []
    for n in walk_with_nested_exprs(fi.node):
        tg = []
        if isinstance(n, ast.Assign):
            tg = n.targets
        elif isinstance(n, (ast.AugAssign, ast.AnnAssign)):
            tg = [n.target]
        elif isinstance(n, ast.Delete):
            tg = n.targets
        for t in tg:
            b = t
            while isinstance(b, ast.Subscript):
                b = b.value
            if b is not t and isinstance(b, ast.Name) and b.id == name:
                out.append(n)
            elif b is t and isinstance(b, ast.Name) and b.id == name:
                out.append(n)
        if isinstance(n, ast.Call) and isinstance(n.func, ast.Attribute) and isinstance(n.func.value, ast.Name) and n.func.value.id == name and n.func.attr in ("pop", "popitem", "update", "setdefault", "clear", "append", "extend", "insert", "remove", "__setitem__", "__delitem__"):
            out.append(n)
    return out


def wrapper_rules(prog, rep, rule="WRAP", parts=("state", "reads", "reaches", "arguments", "purity"), arg_skip=()):
    rep.rule(rule, "Datastore / Bucket keep no state besides the handle table, return what the storage returned, hand their arguments to the storage unchanged (window rounding and the `created` default aside) and do not write into the objects they are given")
    for cname in ("Datastore", "Bucket"):
        ci = prog.cls(cname)
        # ---- state
        if "state" in parts:
            bad = None
            for m in ci.methods.values():
                for n in walk_with_nested_exprs(m.node):
                    tg = []
                    if isinstance(n, ast.Assign):
                        tg = n.targets
                    elif isinstance(n, (ast.AugAssign, ast.AnnAssign)):
                        tg = [n.target]
                    for t in tg:
                        base = t
                        keyed = False
                        while isinstance(base, ast.Subscript):
                            base, keyed = base.value, True
                        if isinstance(base, ast.Attribute) and isinstance(base.value, ast.Name) and base.value.id == "self":
                            a = base.attr
                            if a in ALLOWED_STATE[cname]:
                                continue
                            if keyed or m.name != "__init__":
                                bad = bad or (m, n, a)
                    if isinstance(n, ast.Call) and isinstance(n.func, ast.Attribute) and n.func.attr in ("append", "setdefault", "update", "add", "extend", "insert") and isinstance(n.func.value, ast.Attribute) and norm(n.func.value.value) == "self" and n.func.value.attr not in ALLOWED_STATE[cname]:
                        bad = bad or (m, n, n.func.value.attr)
            rep.check(bad is None, rule, cname, "no state of its own", f"only {sorted(ALLOWED_STATE[cname])}", (f"{bad[0].short} stores into self.{bad[2]} (`{norm(bad[1])[:70]}`): the wrapper keeps state of its own, from which later reads can be answered (stale or shared values) instead of from the storage" if bad else ""), bad[0].loc(bad[1]) if bad else f"{ci.mod.relpath}:{ci.node.lineno}")
        # ---- reads
        if "reads" in parts:
            for mname in READS[cname]:
                fi = ci.methods.get(mname)
                if fi is None:
                    continue
                rets = [r for r in walk_own(fi.node) if isinstance(r, ast.Return)]
                ok = bool(rets)
                why = "no return"
                for r in rets:
                    v = deep(r.value, fi) if r.value is not None else None
                    if not (isinstance(v, ast.Call) and isinstance(v.func, ast.Attribute) and norm(v.func.value) in STORAGE):
                        ok = False
                        why = f"`{norm(r)[:80]}` does not return the storage's answer as it is"
                rep.check(ok, rule, fi.short, "returns the storage's answer", "return <storage call>", f"{why}: what a reader gets is no longer what the storage holds (a cached, filtered or re-built value)", fi.loc())
                # ... as it is: a local holding the answer is not written into before it is returned
                for r in rets:
                    if isinstance(r.value, ast.Name):
                        nm = r.value.id
                        edits = [n for n in walk_with_nested_exprs(fi.node) if (isinstance(n, (ast.Assign, ast.AugAssign)) and any(isinstance(t, ast.Subscript) and isinstance(t.value, ast.Name) and t.value.id == nm or (isinstance(t, ast.Attribute) and isinstance(t.value, ast.Name) and t.value.id == nm) for t in (n.targets if isinstance(n, ast.Assign) else [n.target]))) or (isinstance(n, ast.Call) and isinstance(n.func, ast.Attribute) and isinstance(n.func.value, ast.Name) and n.func.value.id == nm and n.func.attr in ("update", "setdefault", "pop", "popitem", "clear", "append", "extend", "insert", "remove", "sort", "reverse")) or (isinstance(n, ast.Delete) and any(isinstance(t, ast.Subscript) and isinstance(t.value, ast.Name) and t.value.id == nm for t in n.targets))]
                        rep.check(not edits, rule, fi.short, f"`{nm}` returned as received", "not written into", (f"`{norm(edits[0])[:70]}` edits the storage's answer before handing it on: the description / listing a reader gets is no longer exactly what was stored (an extra key, a changed value), and it disagrees with what the other read paths return" if edits else ""), fi.loc(edits[0]) if edits else fi.loc())
        # ---- defaults of the read methods: asking for nothing in particular means "everything"
        if "reads" in parts:
            for mname in READS[cname]:
                fi = ci.methods.get(mname)
                if fi is None:
                    continue
                a_ = fi.node.args
                pos_ = a_.posonlyargs + a_.args
                dflt_ = list(zip(pos_[len(pos_) - len(a_.defaults):], a_.defaults)) + [(p_, d_) for p_, d_ in zip(a_.kwonlyargs, a_.kw_defaults) if d_ is not None]
                for p_, d_ in dflt_:
                    nm = p_.arg
                    dv = d_.value if isinstance(d_, ast.Constant) else (-d_.operand.value if isinstance(d_, ast.UnaryOp) and isinstance(d_.op, ast.USub) and isinstance(d_.operand, ast.Constant) and isinstance(d_.operand.value, (int, float)) else "?")
                    if dv == "?" and isinstance(d_, ast.Name):
                        from .normalize import known_constants  # noqa: F401  (module constants are inlined by the normaliser; a name left here is not one)
                    if nm == "limit":
                        okd = isinstance(dv, int) and not isinstance(dv, bool) and dv < 0
                        rep.check(okd, rule, fi.short, f"default of {nm}", "negative: no limit", f"`{nm}` defaults to `{norm(d_)}`: a read that does not ask for a limit no longer returns every event (the oldest ones are silently left out once the bucket is larger), while lookups by id and counts still see them", fi.loc())
                    elif nm in ("starttime", "endtime"):
                        rep.check(dv is None, rule, fi.short, f"default of {nm}", "None: open edge", f"`{nm}` defaults to `{norm(d_)}`: a read without a window is silently restricted", fi.loc())
        # ---- reaches: an operation is handed to the storage on every path that returns normally
        if "reaches" in parts:
            from .cfg import cfg_of

            for mname in WRITES[cname]:
                fi = ci.methods.get(mname)
                if fi is None:
                    continue
                g = cfg_of(fi)
                calls = {g.node_of(c) for c in prog.all_calls(fi) if isinstance(c.func, ast.Attribute) and norm(c.func.value) in STORAGE}
                if not calls:
                    rep.violation(rule, fi.short, "reaches the storage", f"{fi.short} never calls the storage: the operation is not carried out", fi.loc())
                    continue
                skipped = g.exit in g.reach_avoiding([g.entry], avoid=frozenset(calls), include_start=True, skip_exc=True)
                w = g.witness(g.entry, g.exit, avoid=frozenset(calls)) if skipped else None
                # ... and by exactly one write: the wrapper does not perform further writes of its own
                SW = ("insert_one", "insert_many", "replace", "replace_last", "delete", "create_bucket", "update_bucket", "delete_bucket")
                # methods of the class that write (directly, or through other methods of the class)
                writers = set(WRITES[cname])
                grew = True
                while grew:
                    grew = False
                    for mn, mf in ci.methods.items():
                        if mn in writers:
                            continue
                        if any(isinstance(c.func, ast.Attribute) and ((norm(c.func.value) in STORAGE and c.func.attr in SW) or (norm(c.func.value) == "self" and c.func.attr in writers)) for c in prog.all_calls(mf)):
                            writers.add(mn)
                            grew = True
                wcalls = [c for c in prog.all_calls(fi) if isinstance(c.func, ast.Attribute) and ((norm(c.func.value) in STORAGE and c.func.attr in SW) or (norm(c.func.value) == "self" and c.func.attr in writers and c.func.attr != fi.name))]
                twice = None
                for a_ in wcalls:
                    after = g.reach_avoiding([g.node_of(a_)])
                    for b_ in wcalls:
                        if b_ is not a_ and g.node_of(b_) in after:
                            twice = twice or (a_, b_)
                rep.check(twice is None, rule, fi.short, "one write per operation", f"{len(wcalls)} write call(s), no two on one path", (f"`{norm(twice[0])[:50]}` and `{norm(twice[1])[:50]}` run on the same path: the wrapper performs a second write of its own (e.g. it rewrites the newest stored event when a new one is inserted), so an operation changes events it was not given" if twice else ""), fi.loc(twice[1]) if twice else fi.loc())
                rep.check(not skipped, rule, fi.short, "reaches the storage", "every normally returning path passes through the storage call", f"{fi.short} can return normally without having called the storage (e.g. an early return for a falsy id: 0 is a valid event id in the memory store): the caller is told the operation happened, the store is unchanged", fi.loc(), found=g.describe_path(w) if w else None)
        # ---- arguments
        if "arguments" in parts:
            for fi in ci.methods.values():
                if fi.short in arg_skip:
                    continue
                for c in prog.all_calls(fi):
                    if not (isinstance(c.func, ast.Attribute) and norm(c.func.value) in STORAGE):
                        continue
                    for a in list(c.args) + [k.value for k in c.keywords]:
                        t = norm(a)
                        from .sqlmodel import local_defs as _ld

                        ok = t in ("self.bucket_id",) or isinstance(a, ast.Constant) or (isinstance(a, ast.Name) and (a.id in fi.params or a.id == (fi.kwarg or "") or a.id == (fi.vararg or "")) and not _ld(fi, a.id))
                        if not ok and fi.short == "Bucket.get" and isinstance(a, ast.Name) and a.id in ("starttime", "endtime"):
                            ok = True
                        if not ok and fi.short == "Datastore.create_bucket" and t in ("created.isoformat()",):
                            from .sqlmodel import local_defs

                            ds_ = [x for x in local_defs(fi, "created") if isinstance(x, ast.Assign)]
                            ok = len(ds_) == 1 and norm(ds_[0].value) in ("created or datetime.now(timezone.utc)", "created if created is not None else datetime.now(timezone.utc)", "created if created else datetime.now(timezone.utc)")
                        rep.check(ok, rule, fi.short, f"argument `{t[:40]}` of {c.func.attr}", "forwarded as given", f"{fi.short} hands `{t[:80]}` to the storage's {c.func.attr}: the value stored / looked up is not the one the caller gave", fi.loc(c))
                        if ok and isinstance(a, ast.Name) and a.id in (fi.kwarg, fi.vararg):
                            # a forwarded pack is forwarded as given only if the wrapper does not edit it first
                            ed = _pack_edits(fi, a.id)
                            rep.check(not ed, rule, fi.short, f"argument pack `{t}` of {c.func.attr}", "not edited before forwarding", (f"{fi.short} edits the argument pack before handing it on (`{norm(ed[0])[:80]}`): the storage receives entries the caller did not give, or loses / overwrites ones it gave (e.g. an explicitly passed value replaced by a default)" if ed else ""), fi.loc(ed[0]) if ed else fi.loc(c))
        # ---- purity
        if "purity" in parts:
            for fi in ci.methods.values():
                if fi.name.startswith("__") or not [p for p in fi.params if p != "self"]:
                    continue
                an = Analysis(prog, fi)
                an.run()
                names = [p for p in fi.params if p not in ("self", "cls")]
                for i, p in enumerate(names):
                    # writes made by the wrapper itself or by helpers of its module; what the storage method it calls does to
                    # its arguments (e.g. setting event.id) is judged by the ownership rules of the storage
                    ws = [w for w in mutations_of_param(an, i) if w.fn == fi.short or not any(w.fn.startswith(c + ".") for c in ("MemoryStorage", "SqliteStorage", "PeeweeStorage", "AbstractStorage", "EventModel", "BucketModel", "Event"))]
                    if ws:
                        w = ws[0]
                        rep.violation(rule, fi.short, f"argument {p}", f"the wrapper writes into the object it was given: `{w.how}` on {p}.{'.'.join(str(x) for x in w.node[2])}[{w.label if not isinstance(w.label, tuple) else w.label[1]}] at {w.loc}: what reaches the storage (and what the caller still holds) is not what the caller passed", w.loc)
                    else:
                        rep.ok(rule, fi.short, f"argument {p}", "not written to by the wrapper", fi.loc())
