"""Flow rules shared by the transform properties."""
from __future__ import annotations

import ast

from .cfg import cfg_of, truth
from .model import norm, walk_own


def says_small(lab, names, bound):
    """the edge asserts len(x) < bound for one of the named list parameters (bound 1: x is empty)"""
    if not lab or lab[0] != "cond":
        return False
    t, pol = norm(lab[1]), lab[2]
    for nm in names:
        if bound >= 1 and truth(lab, nm) is False:
            return True
        for k in range(0, bound + 1):
            if pol and t in (f"len({nm}) < {k}", f"{k} > len({nm})") and k <= bound:
                return True
            if pol and t in (f"len({nm}) <= {k}", f"{k} >= len({nm})") and k + 1 <= bound:
                return True
            if pol and t in (f"len({nm}) == {k}", f"{k} == len({nm})") and k + 1 <= bound:
                return True
            if not pol and t in (f"len({nm}) >= {k}", f"{k} <= len({nm})") and k <= bound:
                return True
            if not pol and t in (f"len({nm}) > {k}", f"{k} < len({nm})") and k + 1 <= bound:
                return True
            if not pol and t in (f"len({nm}) != {k}",) and k + 1 <= bound:
                return True
    return False


def early_returns(prog, rep, rule, fi, list_params, bound=1, what="the loop the rules describe"):
    """Every return other than the function's last statement is taken only when one of the list parameters holds fewer
    than `bound` elements (then there is nothing for the main computation to do).  A shortcut guarded by anything else
    (another parameter, a content test) bypasses the computation the other rules speak about."""
    rets = [n for n in walk_own(fi.node) if isinstance(n, ast.Return)]
    last = fi.node.body[-1]
    g = cfg_of(fi)
    reach = g.reach_filtered(g.entry, lambda u, v, lab: not says_small(lab, list_params, bound))
    n = 0
    for r in rets:
        if r is last:
            continue
        # a return nested in the final statement (if/else at the end of the function) is not an early exit
        p = r
        from .model import parent

        tail = False
        while p is not None and p is not fi.node:
            if p is last:
                tail = True
            p = parent(p)
        if tail:
            continue
        n += 1
        ok = g.node_of(r) not in reach
        rep.check(ok, rule, fi.short, f"early return at line {r.lineno}", f"only when {' or '.join(list_params)} has fewer than {bound} element(s)", f"`{norm(r)[:60]}` leaves {fi.short} before {what} on a path that does not establish that {' / '.join(list_params)} has fewer than {bound} element(s): whatever the skipped code guarantees is not guaranteed for those inputs", fi.loc(r))
    return n
