"""Path summaries of loop-free code: for every CFG path, the branch literals it assumes
(canonical affine literals where possible, opaque normalised text otherwise), the values of
everything it assigns (constant propagation of affine forms, E4) and what it returns."""
from __future__ import annotations

import ast
import copy

from .affine import Env, Form, Lit, NonAffine, State, exec_block, lin_in, literal, normalize_lits, infeasible, subst_form
from .cfg import CFG
from .core import AnalysisError
from .model import norm
from .sqlmodel import single_def


class PathSummary:
    def __init__(self):
        self.lits = set()  # canonical Lit
        self.opaque = set()  # (text, polarity)
        self.alts = []
        self.state = State()
        self.writes = []  # atom texts assigned that are not plain locals
        self.ret = None  # ast expr or None (falls off / bare return)
        self.ret_form = None
        self.kind = "return"  # return | raise | continue | break
        self.lines = []
        self.stmts = []  # statement nodes on the path, in order
        self.calls = []  # expression-statement calls other than logging
        self.yields = []  # yielded expressions
        self.undecided = []

    def describe(self):
        return {"literals": sorted(repr(l) for l in self.lits), "opaque": sorted(f"{'' if p else 'not '}{t}" for t, p in self.opaque), "writes": {k: repr(v) for k, v in self.state.vals.items()}, "returns": norm(self.ret) if self.ret is not None else None, "kind": self.kind}


def _subst_rest(form, vals):
    """lin() under env.state has already replaced every assigned name / attribute / subscript by its current form, and
    those forms are expressed in the atoms' values on entry: substituting a second time would apply an update twice."""
    return form


def inline_simple_locals(e, fi):
    """replace single-assignment locals that merely name a subscript / attribute / method-call-free expression
    (`a_val = a[key]`, `stripped = line.strip()`) by that expression, so that opaque literals are spelled the same
    whether or not the code uses such temporaries"""
    if fi is None:
        return e
    from .trace import resolve

    class R(ast.NodeTransformer):
        def visit_Name(self, n):
            if isinstance(n.ctx, ast.Load) and n.id not in fi.params:
                v = resolve(n, fi)
                if v is not n and isinstance(v, (ast.Subscript, ast.Attribute)) or (v is not n and isinstance(v, ast.Call) and isinstance(v.func, ast.Attribute) and v.func.attr in ("strip", "lower", "upper") and not v.args):
                    return ast.parse(ast.unparse(v), mode="eval").body
            return n

    return R().visit(ast.parse(ast.unparse(e), mode="eval").body)


def _expand_test(e, pol, fi, env, ps, state, data_eq=None):
    """add the literal(s) of test e taken with polarity pol to ps"""
    if isinstance(e, ast.Constant):
        return
    # inline a name bound once to a comparison
    ffi = fi if fi is not None else getattr(env, "fi", None)
    if isinstance(e, ast.Name) and ffi is not None:
        v = single_def(ffi, e.id)
        if isinstance(v, (ast.Compare, ast.BoolOp)):
            e = v
    if isinstance(e, ast.Compare) and len(e.ops) > 1:
        if not pol:
            ps.opaque.add((norm(e), False))
            return
        left = e.left
        for op, right in zip(e.ops, e.comparators):
            _expand_test(ast.Compare(left=left, ops=[op], comparators=[right]), True, fi, env, ps, state, data_eq)
            left = right
        return
    if isinstance(e, ast.BoolOp) and isinstance(e.op, ast.And) and pol:
        for v in e.values:
            _expand_test(v, True, fi, env, ps, state, data_eq)
        return
    if isinstance(e, ast.BoolOp) and isinstance(e.op, ast.Or) and not pol:
        for v in e.values:
            _expand_test(v, False, fi, env, ps, state, data_eq)
        return
    if isinstance(e, ast.UnaryOp) and isinstance(e.op, ast.Not):
        _expand_test(e.operand, not pol, fi, env, ps, state, data_eq)
        return
    if isinstance(e, ast.Call) and isinstance(e.func, ast.Name) and e.func.id == "bool" and len(e.args) == 1 and not e.keywords:
        _expand_test(e.args[0], pol, fi, env, ps, state, data_eq)
        return
    if data_eq is not None:
        t = data_eq(e)
        if t is not None:
            ps.opaque.add((t[0], pol if t[1] else not pol))
            return
    if isinstance(e, ast.Compare):
        old = env.state
        env.state = state
        try:
            l = literal(e, env, pol)
            ps.lits.add(Lit(_subst_rest(l.form, state.vals), l.op))
            return
        except NonAffine:
            pass
        finally:
            env.state = old
    ps.opaque.add((norm(inline_simple_locals(e, fi if fi is not None else getattr(env, "fi", None))), pol))


def _expand_alts(e, pol, fi, env, state, data_eq=None):
    """disjunctive normal form of test e taken with polarity pol: a list of alternatives, each (literals, opaque)"""
    one = lambda lits=(), opq=(): [(set(lits), set(opq))]
    if isinstance(e, ast.Constant):
        return one()
    ffi = fi if fi is not None else getattr(env, "fi", None)
    if isinstance(e, ast.Name) and ffi is not None:
        v = single_def(ffi, e.id)
        if isinstance(v, (ast.Compare, ast.BoolOp)):
            e = v
    if isinstance(e, ast.UnaryOp) and isinstance(e.op, ast.Not):
        return _expand_alts(e.operand, not pol, fi, env, state, data_eq)
    parts = None
    if isinstance(e, ast.Compare) and len(e.ops) > 1:
        parts, left = [], e.left
        for op, right in zip(e.ops, e.comparators):
            parts.append(ast.Compare(left=left, ops=[op], comparators=[right]))
            left = right
        conj = True
    elif isinstance(e, ast.BoolOp):
        parts, conj = list(e.values), isinstance(e.op, ast.And)
    if parts is not None:
        subs = [_expand_alts(x, pol, fi, env, state, data_eq) for x in parts]
        if conj == pol:  # conjunction of the parts
            out = [(set(), set())]
            for alts in subs:
                out = [(l1 | l2, o1 | o2) for l1, o1 in out for l2, o2 in alts][:64]
            return out
        out = []
        for alts in subs:
            out += alts
        return out[:64]
    if data_eq is not None:
        t = data_eq(e)
        if t is not None:
            return one(opq=[(t[0], pol if t[1] else not pol)])
    old = env.state
    env.state = state
    try:
        if isinstance(e, ast.Compare):
            try:
                l = literal(e, env, pol)
                return one(lits=[Lit(_subst_rest(l.form, state.vals), l.op)])
            except NonAffine:
                pass
        elif (isinstance(e, ast.Name) and e.id in state.vals and len(state.vals[e.id].terms) + (1 if state.vals[e.id].const else 0) > 1) or (isinstance(e, ast.Attribute) and e.attr == "duration"):
            # truthiness of a number / timedelta: non-zero
            try:
                from .affine import lin

                f = subst_form(lin(e, env), state.vals)
                return one(lits=[Lit(f, "!=" if pol else "==")])
            except NonAffine:
                pass
    finally:
        env.state = old
    return one(opq=[(norm(inline_simple_locals(e, fi if fi is not None else getattr(env, "fi", None))), pol)])


def summarize(fi=None, body=None, env=None, data_eq=None, field_roots=(), limit=400, init_state=None, dnf=False):
    """Path summaries of a loop-free function (fi) or statement list (body).  With dnf=True a compound test
    (and / or / chained comparison, either polarity) is split into its alternatives: one summary per alternative."""
    g = CFG(fi.node if body is None else None, body=body)
    if g.has_loop():
        raise AnalysisError("summarize(): code has a loop")
    env = env or Env(fi, None, inline_locals=False)
    out = []
    for path in g.paths(limit=limit):
        ps = PathSummary()
        if init_state is not None:
            ps.state = init_state.copy()
        st = ps.state
        try:
            for nid, lab in path:
                n = g.nodes[nid]
                if n.kind == "stmt":
                    a = n.ast
                    ps.lines.append(a.lineno)
                    ps.stmts.append(a)
                    if isinstance(a, ast.Return):
                        ps.ret = a.value
                        if a.value is not None:
                            try:
                                ps.ret_form = lin_in(a.value, env, st)
                            except NonAffine:
                                ps.ret_form = None
                    elif isinstance(a, ast.Raise):
                        ps.kind = "raise"
                        ps.ret = a.exc
                    elif isinstance(a, ast.Continue):
                        ps.kind = "continue"
                    elif isinstance(a, ast.Break):
                        ps.kind = "break"
                    elif isinstance(a, (ast.Assign, ast.AugAssign)):
                        tg = a.targets if isinstance(a, ast.Assign) else [a.target]
                        for t in tg:
                            for tt in t.elts if isinstance(t, (ast.Tuple, ast.List)) else [t]:
                                if not isinstance(tt, ast.Name):
                                    ps.writes.append(norm(tt))
                        try:
                            exec_block([a], env, st)
                        except NonAffine as ex:
                            # value not affine: record opaque value
                            for t in tg:
                                if isinstance(t, (ast.Name, ast.Attribute, ast.Subscript)):
                                    from .affine import _atom_text

                                    st.vals[_atom_text(t, env)] = Form.atom(f"<{norm(a.value) if isinstance(a, ast.Assign) else norm(a)}>")
                                else:
                                    ps.undecided.append(f"line {a.lineno}: {ex}")
                    elif isinstance(a, ast.Expr) and isinstance(a.value, ast.Call):
                        nm = norm(a.value.func)
                        if nm.split(".")[0] not in ("logger", "logging", "print"):
                            ps.calls.append(a.value)
                    elif isinstance(a, ast.Expr) and isinstance(a.value, ast.Yield):
                        ps.yields.append(a.value.value)
                    elif isinstance(a, (ast.Expr, ast.Pass)):
                        pass
                    else:
                        ps.undecided.append(f"line {a.lineno}: statement {type(a).__name__}")
                if lab and lab[0] == "cond":
                    if dnf:
                        ps.alts.append(_expand_alts(lab[1], lab[2], fi, env, st, data_eq))
                    else:
                        _expand_test(lab[1], lab[2], fi, env, ps, st, data_eq)
            last = g.nodes[path[-1][0]]
            if last.kind == "raise" and ps.kind == "return":
                ps.kind = "raise"
        except NonAffine as ex:
            ps.undecided.append(str(ex))
        forks = [ps]
        if dnf:
            combos = [(set(), set())]
            for alts in ps.alts:
                combos = [(l1 | l2, o1 | o2) for l1, o1 in combos for l2, o2 in alts]
                combos = [c for c in combos if not infeasible(normalize_lits(c[0])) and not any((t, not p) in c[1] for t, p in c[1])][:256]
            forks = []
            for l, o in combos:
                f = copy.copy(ps)
                f.lits, f.opaque = set(ps.lits) | l, set(ps.opaque) | o
                forks.append(f)
        for f in forks:
            f.lits = normalize_lits(f.lits)
            if infeasible(f.lits) or any((t, not p) in f.opaque for t, p in f.opaque):
                continue  # contradictory literals: not a real path
            out.append(f)
    return out, g


def seed_state(stmts, env):
    """Affine values of the simple assignments in `stmts` (e.g. constants defined before a loop); non-affine ones are skipped."""
    st = State()
    for s in stmts:
        if isinstance(s, ast.Assign) and len(s.targets) == 1 and isinstance(s.targets[0], ast.Name):
            try:
                exec_block([s], env, st)
            except NonAffine:
                pass
    return st
