"""Reporting plumbing shared by every property check.

A check creates one Report, records every rule instance it evaluated as an
obligation (ok / violation / undecided), and calls finish(), which
  * matches violations against /verif/known_findings.json (never written here),
  * writes the evidence file and one replay file per unlisted violation,
  * prints the VIOLATION / KNOWN-FINDING / ANALYSIS-UNDECIDED lines,
  * returns the exit code (0 held, 1 violation, 2 analysis could not decide).
Nothing in here (or anywhere in awstatic) imports or runs code from the repo.
"""
from __future__ import annotations

import json
import os
import sys
import time

VERIF = os.path.dirname(os.path.dirname(os.path.abspath(__file__)))


class AnalysisError(Exception):
    """An anchor vanished or a construct is outside every enumerated idiom."""

    def __init__(self, msg, loc=None):
        super().__init__(msg)
        self.loc = loc


class Obligation:
    __slots__ = ("rule", "function", "construct", "status", "detail", "loc", "expected", "found", "path")

    def __init__(self, rule, function, construct, status, detail, loc, expected=None, found=None, path=None):
        self.rule = rule
        self.function = function
        self.construct = construct
        self.status = status  # ok | violation | undecided
        self.detail = detail
        self.loc = loc
        self.expected = expected
        self.found = found
        self.path = path

    def key(self):
        return (self.rule, self.function, self.construct)

    def as_dict(self):
        d = {
            "rule": self.rule,
            "function": self.function,
            "construct": self.construct,
            "status": self.status,
            "detail": self.detail,
            "loc": self.loc,
        }
        if self.expected is not None:
            d["expected"] = self.expected
        if self.found is not None:
            d["found"] = self.found
        if self.path is not None:
            d["path"] = self.path
        return d


class Report:
    def __init__(self, prop, tier="quick", repo="/repo", evidence_dir=None, quiet=False):
        self.prop = prop
        self.tier = tier
        self.repo = repo
        self.evidence_dir = evidence_dir or os.path.join(VERIF, "evidence")
        self.quiet = quiet
        self.t0 = time.time()
        self.obligations: list[Obligation] = []
        self.notes: list[str] = []  # observations, never verdicts
        self.analysed: dict[str, list] = {}
        self.floors: list[tuple] = []
        self.rules: dict[str, str] = {}  # rule id -> rule text
        self.level = "other"
        self.explanation = ""
        self.trusted_base: list[str] = []
        self.assumptions: list[str] = []
        self.not_decided: list[str] = []
        self.extra: dict = {}
        self.selftest: list[dict] = []
        self.errors: list[str] = []
        self.replay_filter = None

    # ---- recording -------------------------------------------------------
    def rule(self, rid, text):
        self.rules[rid] = text

    def ok(self, rule, function, construct, detail="", loc=None):
        self.obligations.append(Obligation(rule, function, construct, "ok", detail, loc))

    # rules that speak about a class / construct as such and do not depend on having recognised a function's shape
    GUARD_EXEMPT = ("INSTANCE-STATE", "COPY-PROTOCOL", "MEMO", "OWN-OUT", "OWN-IN", "NO-ROLLBACK", "RAISE-CLASS", "SCHEMA", "TEXT", "AUTOCOMMIT", "LEGACY-RO", "STATELESS", "NO-WRITE", "PURE", "ONE-WRITER", "JSON")

    def violation(self, rule, function, construct, detail, loc=None, expected=None, found=None, path=None):
        why = self._opaque_structure(function) if rule not in self.GUARD_EXEMPT else None
        if why:
            # soundness guard: a finding about a function that works through a class the analysis could not take apart
            # (introduced after the rules were written) may be an artefact of not seeing through it: say so, do not accuse
            self.obligations.append(Obligation(rule, function, construct, "undecided", f"[not decided: {why}] would-be finding: {detail}"[:600], loc))
            return
        self.obligations.append(Obligation(rule, function, construct, "violation", detail, loc, expected, found, path))

    def _opaque_structure(self, function):
        prog = getattr(self, "prog", None)
        if prog is None or not isinstance(function, str):
            return None
        cache = self.__dict__.setdefault("_opaque_cache", {})
        if function in cache:
            return cache[function]
        res = None
        try:
            from .inline import known_functions

            known = known_functions()
            known_cls = {q.rsplit(".", 2)[0] + "." + q.rsplit(".", 2)[1] for q in known if q.count(".") >= 2}
            unknown = {c.name: c for c in prog.classes.values() if f"{c.mod.name}.{c.name}" not in known_cls and not any(b.split("[")[0].split(".")[-1] in ("Exception", "QueryException", "BaseException", "IntEnum") or "Exception" in b for b in c.base_names)}
            # classes with no methods at rule-writing time (models etc.) are known by name through known constants
            from .normalize import known_constants

            kc = set(known_constants())
            unknown = {n: c for n, c in unknown.items() if not any(k.startswith(f"{c.mod.name}:{n}.") for k in kc) and n not in ("BaseModel", "BucketModel", "EventModel")}
            if unknown:
                members = set()
                for c in unknown.values():
                    members |= {m.split(".")[0] for m in c.methods if not m.startswith("__")}
                    members |= set(getattr(c, "attrs", {}) or {})
                    for n_ in __import__("ast").walk(c.node):
                        if isinstance(n_, __import__("ast").AnnAssign) and hasattr(n_.target, "id"):
                            members.add(n_.target.id)
                known_members = set()
                for c in prog.classes.values():
                    if c.name not in unknown:
                        known_members |= {m.split(".")[0] for m in c.methods} | set(getattr(c, "attrs", {}) or {})
                members -= known_members | {"timestamp", "duration", "data", "id", "get", "items", "keys", "values", "append", "pop"}
                fis = prog.by_short.get(function, [])
                import ast as _ast

                for fi in fis:
                    for n_ in _ast.walk(fi.node):
                        if isinstance(n_, _ast.Name) and n_.id in unknown:
                            res = f"{function} uses the class {n_.id}, which was introduced after the rules were written and could not be taken apart"
                        elif isinstance(n_, _ast.Attribute) and n_.attr in members:
                            res = f"{function} goes through `.{n_.attr}` of a class introduced after the rules were written ({', '.join(sorted(unknown))[:80]})"
                        if res:
                            break
                    if res:
                        break
            if res is None:
                # a dependency edge the rules were not written against: the function calls something of the packages that its
                # module imports only since (and that could not be written out in place)
                import ast as _ast
                from .normalize import known_imports
                from .model import PACKAGES

                ki = known_imports()
                for fi in prog.by_short.get(function, []):
                    new_names = {}
                    for st in fi.mod.tree.body:
                        if isinstance(st, _ast.ImportFrom) and (st.level >= 1 or (st.module or "").split(".")[0] in PACKAGES):
                            for a in st.names:
                                if f"{fi.mod.name}:{a.name}" not in ki and a.name != "*":
                                    new_names[a.asname or a.name] = (st.module or ".", a.name)
                    if not new_names:
                        continue
                    for n_ in _ast.walk(fi.node):
                        if isinstance(n_, _ast.Call) and isinstance(n_.func, _ast.Name) and n_.func.id in new_names:
                            src, nm = new_names[n_.func.id]
                            # only a function that already existed when the rules were written (its behaviour is pinned by the
                            # rules of its home module): a NEW function reached through a new import is unverified code, and a
                            # finding about its caller stands
                            if not any(q.endswith("." + nm) and (src == "." or q.rsplit(".", 1)[0].endswith(src.lstrip("."))) for q in known):
                                continue
                            res = f"{function} calls `{nm}`, which its module imports from `{src}` only since the rules were written (a dependency on code of another module that the rules do not see through)"
                            break
                    if res:
                        break
        except Exception:
            res = None
        cache[function] = res
        return res

    def undecided(self, rule, function, construct, detail, loc=None):
        self.obligations.append(Obligation(rule, function, construct, "undecided", detail, loc))

    def check(self, cond, rule, function, construct, detail_ok="", detail_bad="", loc=None, expected=None, found=None):
        if cond:
            self.ok(rule, function, construct, detail_ok, loc)
        else:
            self.violation(rule, function, construct, detail_bad or detail_ok, loc, expected, found)
        return cond

    def note(self, text):
        self.notes.append(text)

    def unit(self, kind, name):
        self.analysed.setdefault(kind, [])
        if name not in self.analysed[kind]:
            self.analysed[kind].append(name)

    def floor(self, name, count, minimum):
        """A rule that matches fewer instances than were confirmed by hand is broken."""
        self.floors.append((name, count, minimum))
        if count < minimum:
            self.errors.append(f"instance floor: {name} matched {count} < {minimum} confirmed by reading")

    def error(self, msg):
        self.errors.append(msg)

    # ---- finishing -------------------------------------------------------
    def _known(self):
        path = os.path.join(VERIF, "known_findings.json")
        try:
            kf = json.load(open(path))
        except FileNotFoundError:
            return []
        return [f for f in kf.get("findings", []) if f.get("property") == self.prop]

    def finish(self):
        known = self._known()
        known_keys = {(f["rule"], f["function"], f["construct"]): f for f in known}
        viols = [o for o in self.obligations if o.status == "violation"]
        undec = [o for o in self.obligations if o.status == "undecided"]
        if self.replay_filter is not None:
            viols = [o for o in viols if list(o.key()) == list(self.replay_filter)]
        new_viols, known_hits = [], []
        for o in viols:
            (known_hits if o.key() in known_keys else new_viols).append(o)
        out = []
        for o in known_hits:
            out.append(f"KNOWN-FINDING: property={self.prop} {o.rule} {o.function} {o.construct}: {o.detail}")
        replay_dir = os.path.join(self.evidence_dir, "replays")
        replays = []
        # de-duplicate by key, keep first
        seen = set()
        uniq_new = []
        for o in new_viols:
            if o.key() in seen:
                continue
            seen.add(o.key())
            uniq_new.append(o)
        if uniq_new:
            os.makedirs(replay_dir, exist_ok=True)
        for n, o in enumerate(uniq_new):
            rp = os.path.join(replay_dir, f"{self.prop}-{o.rule}-{n}.json")
            with open(rp, "w") as f:
                json.dump(
                    {
                        "property": self.prop,
                        "rule": o.rule,
                        "rule_text": self.rules.get(o.rule, ""),
                        "key": list(o.key()),
                        "repo": self.repo,
                        **o.as_dict(),
                    },
                    f,
                    indent=1,
                )
            replays.append(rp)
            out.append(f"VIOLATION property={self.prop} replay={rp}")
            out.append(f"  {o.loc or '?'}: {o.function} — {o.rule} — {o.construct}: {o.detail}")
            if o.expected is not None or o.found is not None:
                out.append(f"    expected: {o.expected}\n    found:    {o.found}")
        for o in undec:
            out.append(f"ANALYSIS-UNDECIDED property={self.prop} {o.loc or '?'}: {o.function} — {o.rule} — {o.construct}: {o.detail}")
        for e in self.errors:
            out.append(f"ANALYSIS-ERROR property={self.prop} {e}")
        for s in self.selftest:
            if not s.get("pass", True):
                out.append(f"SELFTEST-FAIL property={self.prop} variant={s['name']}: {s.get('why')}")
        if uniq_new:
            code = 1
        elif undec or self.errors or any(not s.get("pass", True) for s in self.selftest):
            code = 2
        else:
            code = 0
        self._write_evidence(len(uniq_new), len(known_hits), len(undec))
        n_ok = sum(1 for o in self.obligations if o.status == "ok")
        out.append(
            f"{self.prop} [{self.tier}] obligations={len(self.obligations)} ok={n_ok} violations={len(uniq_new)} "
            f"known={len(known_hits)} undecided={len(undec)} errors={len(self.errors)} "
            f"selftest={sum(1 for s in self.selftest if s.get('pass', True))}/{len(self.selftest)} "
            f"wall={time.time() - self.t0:.2f}s -> exit {code}"
        )
        if not self.quiet:
            print("\n".join(out))
            sys.stdout.flush()
        self.output = out
        return code

    def _write_evidence(self, n_viol, n_known, n_undec):
        os.makedirs(self.evidence_dir, exist_ok=True)
        obl = self.obligations
        n_ok = sum(1 for o in obl if o.status == "ok")
        distinct = len({o.key() for o in obl})
        samples = [o.as_dict() for o in obl[:12]]
        bad = [o.as_dict() for o in obl if o.status != "ok"][:20]
        cov = {
            "evaluations": max(len(obl), 1),
            "distinct_nontrivial": distinct,
            "rule": "one obligation per (rule, function, construct) instance found in /repo's working tree; "
            "distinct = distinct keys; an instance is non-trivial because it is an actual construct of the source "
            "(call site, statement, path, SQL statement) that the rule constrains",
            "samples": samples or [{"note": "no obligations"}],
            "obligations": len(obl),
            "discharged": n_ok,
            "checker_cmd": f"./check {self.prop} --tier {self.tier}",
            "trusted_base": self.trusted_base,
            "explanation": self.explanation,
            "exhaustive": True,
            "rules": self.rules,
            "not_decided": self.not_decided,
            "analysed": {k: v for k, v in self.analysed.items()},
            "analysed_counts": {k: len(v) for k, v in self.analysed.items()},
            "instance_floors": [{"what": n, "matched": c, "floor": m} for n, c, m in self.floors],
            "non_ok_obligations": bad,
            "known_findings_matched": n_known,
            "undecided": n_undec,
            "observations": self.notes,
            "selftest": self.selftest,
            "analysis_errors": self.errors,
            "repo": self.repo,
        }
        cov.update(self.extra)
        ev = {
            "property_id": self.prop,
            "tier": self.tier,
            "seed": int(os.environ.get("VERIF_SEED", "0") or 0),
            "level": self.level,
            "coverage": cov,
            "assumptions": self.assumptions + self.trusted_base,
            "wall_s": round(time.time() - self.t0, 3),
            "violations": n_viol,
        }
        with open(os.path.join(self.evidence_dir, f"{self.prop}.json"), "w") as f:
            json.dump(ev, f, indent=1, default=str)
