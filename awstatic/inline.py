"""Normalisation pass: helpers that did not exist when the rules were written are inlined into their callers.

The rules name the functions of the (repaired) pinned tree; a behaviour-preserving "extract helper" refactoring
moves a few statements into a new function and would otherwise hide them from rules that look at one function
body.  Every function whose qualified name is not in known_functions.txt and that is called

    as a statement            h(a, b)
    as an assignment value    x = h(a, b)            (helper: straight-line body ending in its only `return`)
    as a tail call            return h(a, b)         (any helper without yield: its returns become the caller's)

from a function of the same module (plain name, self.h, cls.h, ClassName.h) is expanded at the call site with its
parameters substituted (arguments that are not plain names / constants are bound to fresh temporaries, locals of the
helper get a suffix).  Anything else is left alone and analysed through the ordinary call resolution.
"""
from __future__ import annotations

import ast
import os

SUFFIX = "__h"


def known_functions():
    p = os.path.join(os.path.dirname(__file__), "known_functions.txt")
    out = set()
    for l in open(p):
        l = l.strip()
        if l and not l.startswith("#"):
            out.add(l)
    return out


def _fresh(node):
    """a parent-link-free copy of a function definition"""
    return ast.parse(ast.unparse(node)).body[0]


def _has(node, types):
    return any(isinstance(n, types) for n in ast.walk(node))


def _returns(fn):
    out = []
    stack = list(fn.body)
    while stack:
        n = stack.pop()
        if isinstance(n, (ast.FunctionDef, ast.AsyncFunctionDef, ast.Lambda, ast.ClassDef)):
            continue
        if isinstance(n, ast.Return):
            out.append(n)
        stack.extend(ast.iter_child_nodes(n))
    return out


def inlinable(fi):
    fn = fi.node
    if fi.nested or (fi.outer is not None and fi.outer.outer is not None):
        return None
    if any(d not in ("staticmethod",) for d in fi.decorators):
        return None
    a = fn.args
    if a.vararg or a.kwarg or a.kwonlyargs or a.posonlyargs:
        return None
    # a mutable default is ONE object for all calls: writing the default out at each call site would make it a fresh one
    if any(isinstance(d, (ast.Dict, ast.List, ast.Set, ast.ListComp, ast.DictComp, ast.SetComp)) or (isinstance(d, ast.Call) and not (isinstance(d.func, ast.Name) and d.func.id in ("timedelta", "frozenset", "tuple", "int", "float", "str"))) for d in a.defaults):
        return None
    if _has(fn, (ast.Yield, ast.YieldFrom, ast.Global, ast.Nonlocal, ast.Await)):
        return None
    if len(fn.body) > 40:
        return None
    # recursion
    for n in ast.walk(fn):
        if isinstance(n, ast.Call) and ((isinstance(n.func, ast.Name) and n.func.id == fn.name) or (isinstance(n.func, ast.Attribute) and n.func.attr == fn.name)):
            return None
    rets = _returns(fn)
    body = [s for s in fn.body if not (isinstance(s, ast.Expr) and isinstance(s.value, ast.Constant))]
    straight = (len(rets) == 1 and body and body[-1] is rets[0]) or not rets
    return "straight" if straight else "tail-only"


class _Subst(ast.NodeTransformer):
    def __init__(self, mapping, rename):
        self.mapping = mapping  # name -> ast expr
        self.rename = rename  # name -> new name

    def visit_Name(self, n):
        if n.id in self.mapping and isinstance(n.ctx, ast.Load):
            return ast.parse(ast.unparse(self.mapping[n.id]), mode="eval").body
        if n.id in self.rename:
            return ast.copy_location(ast.Name(id=self.rename[n.id], ctx=n.ctx), n)
        return n


def _expand(fi, call, mode, caller_names=frozenset()):
    """-> (list of statements, return expression or None)"""
    fn = _fresh(fi.node)
    params = [a.arg for a in fn.args.args]
    is_method = fi.cls is not None and not fi.is_static and params and params[0] in ("self", "cls")
    if is_method:
        params = params[1:]
    defaults = fn.args.defaults
    dmap = {}
    for p, d in zip(reversed(params), reversed(defaults)):
        dmap[p] = d
    args = {}
    for i, a in enumerate(call.args):
        if isinstance(a, ast.Starred) or i >= len(params):
            return None
        args[params[i]] = a
    for k in call.keywords:
        if k.arg is None or k.arg not in params:
            return None
        args[k.arg] = k.value
    for p in params:
        if p not in args:
            if p in dmap:
                args[p] = dmap[p]
            else:
                return None
    stored = {n.id for n in ast.walk(fn) if isinstance(n, ast.Name) and isinstance(n.ctx, ast.Store)}
    pre = []
    mapping, rename = {}, {}
    for p in params:
        a = args[p]
        simple = isinstance(a, (ast.Name, ast.Constant)) or (isinstance(a, ast.Attribute) and isinstance(a.value, ast.Name))
        if simple and p not in stored:
            mapping[p] = a
        else:
            rename[p] = p + SUFFIX
            val = ast.parse(ast.unparse(a), mode="eval").body
            # allocation sites are told apart by line and column: keep the argument's own position (two deepcopy() arguments
            # of one call must stay two sites)
            for x in ast.walk(val):
                x.lineno = getattr(a, "lineno", call.lineno)
                x.col_offset = getattr(a, "col_offset", 0) + getattr(x, "col_offset", 0)
                x.end_lineno, x.end_col_offset = x.lineno, x.col_offset
            pre.append(ast.Assign(targets=[ast.Name(id=p + SUFFIX, ctx=ast.Store())], value=val, lineno=call.lineno, col_offset=0))
    for s in stored:
        if s not in params and s not in ("self", "cls") and s in caller_names:
            rename[s] = s + SUFFIX  # only on collision: rules recognise roles by the names the code uses
    sub = _Subst(mapping, rename)
    body = [sub.visit(s) for s in fn.body if not (isinstance(s, ast.Expr) and isinstance(s.value, ast.Constant))]
    off = (fi.node.lineno - 1)
    for s in body:
        for n in ast.walk(s):
            if hasattr(n, "lineno"):
                n.lineno = n.lineno + off
                if hasattr(n, "end_lineno") and n.end_lineno is not None:
                    n.end_lineno = n.end_lineno + off
    ret = None
    if mode == "straight":
        if body and isinstance(body[-1], ast.Return):
            ret = body[-1].value
            body = body[:-1]
    else:
        if not body or not isinstance(body[-1], (ast.Return, ast.Raise)):
            body.append(ast.Return(value=ast.Constant(value=None), lineno=call.lineno, col_offset=0))
    stmts = pre + body
    for s in stmts:
        ast.fix_missing_locations(s)
    return stmts, ret


def _contains_return(st):
    for n in ast.walk(st):
        if isinstance(n, ast.Return):
            return True
    return False


def _tailify(stmts, target, lineno):
    """statements with every `return e` replaced by `target = e` (returns in tail position, or early returns under
    an if: the rest of the block moves into the other branch); None when a return sits in a loop / try / with"""

    def assign(v):
        val = v if v is not None else ast.Constant(value=None)
        tg = _store(target)
        if isinstance(tg, ast.Tuple) and isinstance(val, ast.Tuple) and len(tg.elts) == len(val.elts) and not any(isinstance(x, ast.Name) and x.id in {e.id for e in tg.elts if isinstance(e, ast.Name)} for v_ in val.elts[1:] for x in ast.walk(v_)):
            # a, b = x, y  ->  a = x; b = y   (later values do not read the earlier targets)
            return [ast.Assign(targets=[t_], value=v_, lineno=lineno, col_offset=0) for t_, v_ in zip(tg.elts, val.elts)]
        return ast.Assign(targets=[tg], value=val, lineno=lineno, col_offset=0)

    def rec(block):
        out = []
        for i, st in enumerate(block):
            if isinstance(st, ast.Return):
                a_ = assign(st.value)
                out += a_ if isinstance(a_, list) else [a_]
                return out
            if isinstance(st, ast.Raise):
                out.append(st)
                return out
            if isinstance(st, ast.If) and _contains_return(st):
                rest = block[i + 1 :]
                b = rec(list(st.body) + [_clone(x) for x in rest])
                o = rec(list(st.orelse) + [_clone(x) for x in rest])
                if b is None or o is None:
                    return None
                out.append(ast.If(test=st.test, body=b, orelse=o, lineno=st.lineno, col_offset=0))
                return out
            rest_is_none = all(isinstance(x, ast.Return) and (x.value is None or (isinstance(x.value, ast.Constant) and x.value.value is None)) for x in block[i + 1 :])
            always_returns = bool(st.body) and isinstance(st.body[-1], (ast.Return, ast.Raise)) if isinstance(st, ast.With) else False
            if isinstance(st, ast.With) and _contains_return(st) and (i == len(block) - 1 or (rest_is_none and always_returns)):
                # with cm: ...; return e   (last statement of the block)  ->  with cm: ...; target = e
                b = rec(list(st.body))
                if b is None:
                    return None
                out.append(ast.With(items=st.items, body=b, lineno=st.lineno, col_offset=0))
                return out
            if _contains_return(st):
                return None
            out.append(st)
        a_ = assign(None)
        out += a_ if isinstance(a_, list) else [a_]
        return out

    return rec(stmts)


def _store(text):
    n = ast.parse(text, mode="eval").body
    for x in ast.walk(n):
        if hasattr(x, "ctx"):
            x.ctx = ast.Load()

    def mark(t):
        t.ctx = ast.Store()
        if isinstance(t, (ast.Tuple, ast.List)):
            for e in t.elts:
                mark(e)

    mark(n)
    return n


def _clone(st):
    new = ast.parse(ast.unparse(st)).body[0]
    off = getattr(st, "lineno", 1) - 1
    for n in ast.walk(new):
        if hasattr(n, "lineno"):
            n.lineno += off
            if getattr(n, "end_lineno", None) is not None:
                n.end_lineno += off
    return new


def _expression_helper(fi):
    """helper whose body is `return <expr>` (after a docstring): usable inside expressions"""
    if inlinable(fi) is None:
        return None
    body = [s for s in fi.node.body if not (isinstance(s, ast.Expr) and isinstance(s.value, ast.Constant))]
    if len(body) == 1 and isinstance(body[0], ast.Return) and body[0].value is not None and not _has(body[0].value, (ast.Lambda, ast.NamedExpr)):
        return body[0].value
    # x = <expr>; y = <expr using x>; return <expr using x, y>  ->  one expression (locals assigned once, never a parameter)
    if len(body) >= 2 and isinstance(body[-1], ast.Return) and body[-1].value is not None and len(body) <= 6 and all(isinstance(st, ast.Assign) for st in body[:-1]):
        params = {a.arg for a in fi.node.args.args}
        env = {}
        for st in body[:-1]:
            if not (isinstance(st, ast.Assign) and len(st.targets) == 1 and isinstance(st.targets[0], ast.Name)):
                return None
            t = st.targets[0].id
            if t in params or t in env or _has(st.value, (ast.Lambda, ast.NamedExpr, ast.Yield, ast.Await)):
                return None
            # a local holding the result of a call is evaluated once: it may be substituted only where it is read once
            reads = sum(1 for later in body[body.index(st) + 1 :] for x in ast.walk(later) if isinstance(x, ast.Name) and x.id == t and isinstance(x.ctx, ast.Load))
            impure = ("execute", "executemany", "executescript", "fetchone", "fetchall", "fetchmany", "cursor", "commit", "pop", "popleft", "popitem", "append", "extend", "remove", "insert", "read", "readline", "write", "save", "create", "delete_instance", "get", "get_or_none", "first", "count", "connect", "close")
            if reads > 1 and any(isinstance(x, ast.Call) and ((isinstance(x.func, ast.Attribute) and x.func.attr in impure) or (isinstance(x.func, ast.Name) and x.func.id in ("next", "open", "input"))) for x in ast.walk(st.value)):
                return None
            env[t] = _Subst(dict(env), {}).visit(ast.parse(ast.unparse(st.value), mode="eval").body)
        if _has(body[-1].value, (ast.Lambda, ast.NamedExpr)):
            return None
        return _Subst(env, {}).visit(ast.parse(ast.unparse(body[-1].value), mode="eval").body)
    # locals, then `if c: return A` ... `return Z` (guard clauses): one conditional expression  A if c else (... Z)
    if len(body) >= 2 and len(body) <= 10 and not _has(fi.node, (ast.Lambda, ast.NamedExpr, ast.Yield, ast.YieldFrom, ast.Await, ast.For, ast.While, ast.Try, ast.With, ast.Raise)):
        params = {a.arg for a in fi.node.args.args}
        IMPURE = ("execute", "executemany", "executescript", "fetchone", "fetchall", "fetchmany", "cursor", "commit", "pop", "popleft", "popitem", "append", "extend", "remove", "insert", "read", "readline", "write", "save", "create", "delete_instance", "get_or_none", "first", "count", "connect", "close")

        def conv(stmts, env):
            if not stmts:
                return None
            st = stmts[0]
            if isinstance(st, ast.Assign) and len(st.targets) == 1 and isinstance(st.targets[0], ast.Name):
                t = st.targets[0].id
                if t in params or t in env:
                    return None
                if any(isinstance(x, ast.Call) and ((isinstance(x.func, ast.Attribute) and x.func.attr in IMPURE) or (isinstance(x.func, ast.Name) and x.func.id in ("next", "open", "input"))) for x in ast.walk(st.value)):
                    return None
                env2 = dict(env)
                env2[t] = _Subst(dict(env), {}).visit(ast.parse(ast.unparse(st.value), mode="eval").body)
                return conv(stmts[1:], env2)
            if isinstance(st, ast.Return):
                if st.value is None:
                    return None
                return _Subst(dict(env), {}).visit(ast.parse(ast.unparse(st.value), mode="eval").body)
            if isinstance(st, ast.If):
                a = conv(st.body, env)
                b = conv(st.orelse if st.orelse else stmts[1:], env)
                if a is None or b is None:
                    return None
                if st.orelse and stmts[1:]:
                    return None
                t_ = _Subst(dict(env), {}).visit(ast.parse(ast.unparse(st.test), mode="eval").body)
                return ast.IfExp(test=t_, body=a, orelse=b)
            return None

        e = conv(body, {})
        if e is not None and isinstance(e, ast.IfExp):
            e = ast.fix_missing_locations(ast.copy_location(e, body[-1]))
            # only for calls inside comprehensions / lambdas: where the call is a statement's value the statement inliner
            # writes the branches out as statements, which is the shape the rules read
            e._nested_only = True
            return e
    return None


class _ExprInline(ast.NodeTransformer):
    def __init__(self, mi, caller, cands, done, props=None):
        self.mi, self.caller, self.cands, self.done = mi, caller, cands, done
        self._depth = 0
        self.props = props or {}  # (class name, attribute) -> expression over self, for unknown read-only properties

    def _nested(self, n):
        self._depth += 1
        try:
            return self.generic_visit(n)
        finally:
            self._depth -= 1

    visit_ListComp = visit_SetComp = visit_DictComp = visit_GeneratorExp = visit_Lambda = _nested

    def visit_Attribute(self, n):
        self.generic_visit(n)
        if isinstance(n.ctx, ast.Load) and isinstance(n.value, ast.Name) and n.value.id == "self" and self.caller.cls is not None and (self.caller.cls.name, n.attr) in self.props and self.caller.name != n.attr:
            new = ast.parse(ast.unparse(self.props[(self.caller.cls.name, n.attr)]), mode="eval").body
            ast.copy_location(new, n)
            for x in ast.walk(new):
                if not hasattr(x, "lineno"):
                    ast.copy_location(x, n)
            self.done.append((self.caller.qname, f"{self.caller.cls.mod.name}.{self.caller.cls.name}.{n.attr}"))
            return new
        return n

    def visit_Dict(self, n):
        self.generic_visit(n)
        # {"a": x, **{"b": y}}  (what an expanded helper leaves behind)  ->  {"a": x, "b": y}
        if any(k is None and isinstance(v, ast.Dict) and all(kk is not None for kk in v.keys) for k, v in zip(n.keys, n.values)):
            ks, vs = [], []
            for k, v in zip(n.keys, n.values):
                if k is None and isinstance(v, ast.Dict) and all(kk is not None for kk in v.keys):
                    ks += v.keys
                    vs += v.values
                else:
                    ks.append(k)
                    vs.append(v)
            n.keys, n.values = ks, vs
        return n

    def visit_Call(self, n):
        self.generic_visit(n)
        # sorted(xs, key=helper) with an unknown one-expression module function: the function's own lambda
        for slot, v in [("a", i_) for i_ in range(len(n.args))] + [("k", i_) for i_ in range(len(n.keywords))]:
            node_ = n.args[v] if slot == "a" else n.keywords[v].value
            if isinstance(node_, ast.Name) and isinstance(node_.ctx, ast.Load):
                hf = self.caller.nested.get(node_.id) or self.mi.funcs.get(node_.id)
                if hf is not None and hf.qname in self.cands and hf is not self.caller and hf.cls is None and not hf.node.args.defaults and not getattr(self.cands[hf.qname], "_nested_only", False):
                    lam = ast.Lambda(args=ast.arguments(posonlyargs=[], args=[ast.arg(arg=a_.arg) for a_ in hf.node.args.args], kwonlyargs=[], kw_defaults=[], defaults=[]), body=ast.parse(ast.unparse(self.cands[hf.qname]), mode="eval").body)
                    if len(lam.args.args) == 1 and lam.args.args[0].arg != "e" and not any(isinstance(x, ast.Name) and x.id == "e" for x in ast.walk(lam.body)):
                        # the key lambdas of this code base name their parameter `e`: same function, familiar text
                        old_ = lam.args.args[0].arg
                        lam.args.args[0].arg = "e"
                        for x in ast.walk(lam.body):
                            if isinstance(x, ast.Name) and x.id == old_:
                                x.id = "e"
                    ast.copy_location(lam, node_)
                    for x in ast.walk(lam):
                        if not hasattr(x, "lineno"):
                            ast.copy_location(x, node_)
                    if slot == "a":
                        n.args[v] = lam
                    else:
                        n.keywords[v].value = lam
                    self.done.append((self.caller.qname, hf.qname))
        # f(a=x, **{"b": y})  ->  f(a=x, b=y)
        if any(k.arg is None and isinstance(k.value, ast.Dict) and all(isinstance(kk, ast.Constant) and isinstance(kk.value, str) and kk.value.isidentifier() for kk in k.value.keys) for k in n.keywords):
            kws = []
            for k in n.keywords:
                if k.arg is None and isinstance(k.value, ast.Dict) and all(isinstance(kk, ast.Constant) and isinstance(kk.value, str) and kk.value.isidentifier() for kk in k.value.keys):
                    kws += [ast.keyword(arg=kk.value, value=vv) for kk, vv in zip(k.value.keys, k.value.values)]
                else:
                    kws.append(k)
            n.keywords = kws
            ast.fix_missing_locations(n)
        f = n.func
        fi = None
        # ClassName.factory(args) with an unknown classmethod `return cls(...)` of any class of the packages
        if isinstance(f, ast.Attribute) and isinstance(f.value, ast.Name) and (f.value.id, f.attr) in getattr(self, "factories", {}):
            expr, params = self.factories[(f.value.id, f.attr)]
            if not n.keywords and len(n.args) == len(params) and not any(isinstance(a, ast.Starred) for a in n.args):
                mapping = dict(zip(params, n.args))
                mapping["cls"] = ast.Name(id=f.value.id, ctx=ast.Load())
                uses = {}
                for x in ast.walk(expr):
                    if isinstance(x, ast.Name) and x.id in mapping:
                        uses[x.id] = uses.get(x.id, 0) + 1
                if all(isinstance(a_, (ast.Name, ast.Constant)) or (isinstance(a_, ast.Attribute)) or uses.get(p_, 0) <= 1 for p_, a_ in mapping.items()):
                    new = _Subst(mapping, {}).visit(ast.parse(ast.unparse(expr), mode="eval").body)
                    ast.copy_location(new, n)
                    for x in ast.walk(new):
                        if not hasattr(x, "lineno"):
                            ast.copy_location(x, n)
                    self.done.append((self.caller.qname, f"<factory>.{f.value.id}.{f.attr}"))
                    return new
        if isinstance(f, ast.Name):
            fi = self.caller.nested.get(f.id) or (self.caller.outer.nested.get(f.id) if self.caller.outer is not None else None) or self.mi.funcs.get(f.id)
        elif isinstance(f, ast.Attribute) and isinstance(f.value, ast.Name) and self.caller.cls is not None and f.value.id in ("self", "cls", self.caller.cls.name):
            fi = self.caller.cls.methods.get(f.attr)
            if fi is None and getattr(self, "prog", None) is not None:
                # an expression helper inherited from a base class (possibly in another module)
                inh = self.prog.method(self.caller.cls, f.attr)
                if inh is not None and inh.qname in getattr(self, "inherited", {}):
                    fi = inh
        if fi is None and isinstance(f, ast.Attribute) and isinstance(f.value, ast.Name) and f.value.id not in ("self", "cls") and getattr(self, "prog", None) is not None:
            # row.to_event(): a method name that exactly one class of the packages defines, and that is new: the receiver
            # can only be an instance of that class
            um = getattr(self, "unique_methods", {}).get(f.attr)
            if um is not None and um.qname in getattr(self, "inherited", {}) and um is not self.caller and not um.is_static and um.params and um.params[0] == "self":
                expr = self.inherited[um.qname]
                if not getattr(expr, "_nested_only", False) or self._depth > 0:
                    params = um.params[1:]
                    if not n.keywords and len(n.args) == len(params) and not any(isinstance(a, ast.Starred) for a in n.args):
                        mapping = dict(zip(params, n.args))
                        mapping["self"] = f.value
                        uses = {}
                        for x in ast.walk(expr):
                            if isinstance(x, ast.Name) and x.id in mapping:
                                uses[x.id] = uses.get(x.id, 0) + 1
                        if all(isinstance(a_, (ast.Name, ast.Constant)) or uses.get(p_, 0) <= 1 for p_, a_ in mapping.items()):
                            new = _Subst(mapping, {}).visit(ast.parse(ast.unparse(expr), mode="eval").body)
                            ast.copy_location(new, n)
                            for x in ast.walk(new):
                                if not hasattr(x, "lineno"):
                                    ast.copy_location(x, n)
                            self.done.append((self.caller.qname, um.qname))
                            return new
        if fi is None or (fi.qname not in self.cands and fi.qname not in getattr(self, "inherited", {})) or fi is self.caller:
            return n
        expr = self.cands.get(fi.qname) or self.inherited[fi.qname]
        if getattr(expr, "_nested_only", False) and self._depth == 0:
            return n
        params = [a.arg for a in fi.node.args.args]
        if fi.cls is not None and not fi.is_static and params and params[0] in ("self", "cls"):
            params = params[1:]
        if any(k.arg is None or k.arg not in params[len(n.args):] for k in n.keywords) or len(n.args) > len(params) or any(isinstance(a, ast.Starred) for a in n.args):
            return n
        mapping = dict(zip(params, n.args))
        mapping.update({k.arg: k.value for k in n.keywords})
        for p_, d_ in zip(reversed([a.arg for a in fi.node.args.args]), reversed(fi.node.args.defaults)):
            if p_ in params and p_ not in mapping:
                mapping[p_] = d_
        if set(mapping) != set(params):
            return n
        # an argument that is more than a name may be substituted only where it is used once (no duplicated evaluation)
        uses = {}
        for x in ast.walk(expr):
            if isinstance(x, ast.Name) and x.id in mapping:
                uses[x.id] = uses.get(x.id, 0) + 1
        for p_, a_ in mapping.items():
            simple = isinstance(a_, (ast.Name, ast.Constant)) or (isinstance(a_, ast.Attribute) and isinstance(a_.value, ast.Name))
            if not simple and uses.get(p_, 0) > 1:
                return n
        new = _Subst(mapping, {}).visit(ast.parse(ast.unparse(expr), mode="eval").body)
        ast.copy_location(new, n)
        for x in ast.walk(new):
            if not hasattr(x, "lineno"):
                ast.copy_location(x, n)
        self.done.append((self.caller.qname, fi.qname))
        return new


def _parent_stmt(root, node):
    """the statement of `root` that directly holds expression `node` as its value (or None)"""
    for st in ast.walk(root):
        if isinstance(st, ast.stmt) and getattr(st, "value", None) is node:
            return st
    return None


def _drop_identity(stmts):
    """`x = x` (a helper parameter that took the name of the variable it is copied back into) does nothing"""
    out = []
    for st in stmts:
        for field in ("body", "orelse", "finalbody"):
            blk = getattr(st, field, None)
            if isinstance(blk, list) and blk and isinstance(blk[0], ast.stmt):
                new = _drop_identity(blk)
                setattr(st, field, new if new or field != "body" else [ast.copy_location(ast.Pass(), st)])
        if isinstance(st, ast.Try):
            for h in st.handlers:
                h.body = _drop_identity(h.body) or [ast.copy_location(ast.Pass(), h)]
        if isinstance(st, ast.Assign) and len(st.targets) == 1 and isinstance(st.targets[0], ast.Name) and isinstance(st.value, ast.Name) and st.value.id == st.targets[0].id:
            continue
        # x = A if C else x   ==   if C: x = A      (and the mirrored form): what an expanded `return A if C else x` helper leaves
        if isinstance(st, ast.Assign) and len(st.targets) == 1 and isinstance(st.targets[0], ast.Name) and isinstance(st.value, ast.IfExp):
            t, v = st.targets[0].id, st.value
            keep_else = isinstance(v.orelse, ast.Name) and v.orelse.id == t
            keep_body = isinstance(v.body, ast.Name) and v.body.id == t
            if keep_else != keep_body:
                test = v.test if keep_else else ast.UnaryOp(op=ast.Not(), operand=v.test)
                asg = ast.Assign(targets=[ast.Name(id=t, ctx=ast.Store())], value=v.body if keep_else else v.orelse)
                new = ast.If(test=test, body=[asg], orelse=[])
                for x in (new, asg, test):
                    ast.copy_location(x, st)
                ast.fix_missing_locations(new)
                out.append(new)
                continue
        out.append(st)
    return out


def inline_new_helpers(prog):
    """rewrite function bodies in place; returns the list of (caller, helper) expansions performed"""
    known = known_functions()
    done = []
    # unknown classmethods of the form `return cls(<expr>)`: usable from every module as ClassName.method(...)
    factories = {}
    for fi in prog.funcs.values():
        if fi.cls is not None and fi.qname not in known and fi.decorators == ["classmethod"] and fi.params and fi.params[0] == "cls":
            body = [s_ for s_ in fi.node.body if not (isinstance(s_, ast.Expr) and isinstance(s_.value, ast.Constant))]
            if len(body) == 1 and isinstance(body[0], ast.Return) and isinstance(body[0].value, ast.Call) and isinstance(body[0].value.func, ast.Name) and body[0].value.func.id == "cls":
                factories[(fi.cls.name, fi.name)] = (body[0].value, fi.params[1:])
    # unknown expression helpers that are methods: also usable through inheritance, from other modules
    inherited = {}
    for fi in prog.funcs.values():
        if fi.cls is not None and fi.qname not in known:
            e = _expression_helper(fi)
            if e is not None and not any(isinstance(x, ast.Name) and x.id in fi.mod.funcs for x in ast.walk(e)):
                inherited[fi.qname] = e
    # new method names that exactly one class defines (and nothing else in the packages is called that)
    by_name = {}
    for fi in prog.funcs.values():
        by_name.setdefault(fi.name, []).append(fi)
    attr_names = set()
    for mi_ in prog.modules.values():
        for n_ in ast.walk(mi_.tree):
            if isinstance(n_, ast.Assign):
                for t_ in n_.targets:
                    if isinstance(t_, ast.Attribute):
                        attr_names.add(t_.attr)
    BUILTIN_METHODS = set(dir(dict)) | set(dir(list)) | set(dir(str)) | set(dir(set)) | set(dir(tuple)) | {"json", "save", "execute", "get", "where", "select", "delete", "insert", "update", "count", "first", "total_seconds", "timestamp", "isoformat", "astimezone", "replace", "commit", "cursor", "fetchone", "fetchall", "close", "debug", "info", "warning", "error"}
    unique_methods = {nm: v[0] for nm, v in by_name.items() if len(v) == 1 and v[0].cls is not None and v[0].qname not in known and nm not in attr_names and nm not in BUILTIN_METHODS and not nm.startswith("__")}
    # (0) pure expression helpers are substituted wherever they are called (helpers that use helpers: a few rounds)
    for mi in list(prog.modules.values()):
        for _round in range(3):
            ecands = {}
            for fi in prog.funcs.values():
                if fi.mod is mi and fi.qname not in known:
                    e = _expression_helper(fi)
                    if e is not None:
                        ecands[fi.qname] = e
            # unknown read-only properties whose body is `return <expr over self>`
            props = {}
            for fi in prog.funcs.values():
                if fi.mod is mi and fi.cls is not None and fi.qname not in known and fi.decorators == ["property"] and len(fi.params) == 1:
                    body = [s_ for s_ in fi.node.body if not (isinstance(s_, ast.Expr) and isinstance(s_.value, ast.Constant))]
                    if len(body) == 1 and isinstance(body[0], ast.Return) and body[0].value is not None and not _has(body[0].value, (ast.Lambda, ast.NamedExpr, ast.Call)):
                        setters = [m for m in fi.cls.methods if m == fi.name + ".setter"]
                        if not setters:
                            props[(fi.cls.name, fi.name)] = body[0].value
            if not ecands and not props and not ((factories or inherited) and _round == 0):
                break
            before = len(done)
            for caller in [f for f in prog.funcs.values() if f.mod is mi]:
                tr = _ExprInline(mi, caller, {q: e for q, e in ecands.items() if q != caller.qname}, done, props)
                tr.factories = factories
                tr.prog, tr.inherited = prog, {q: e for q, e in inherited.items() if q != caller.qname}
                tr.unique_methods = unique_methods
                caller.node.body = [tr.visit(st) for st in caller.node.body]
                ast.fix_missing_locations(caller.node)
            if len(done) == before:
                break
        # closures that were only ever used as expressions are dropped from their outer function
        for fi in [f for f in prog.funcs.values() if f.mod is mi and f.outer is not None and f.qname not in known]:
            if any(h == fi.qname for _, h in done):
                outer = fi.outer
                used = any(isinstance(n, ast.Name) and n.id == fi.name for st in outer.node.body if st is not fi.node for n in ast.walk(st))
                if not used:
                    outer.node.body = [st for st in outer.node.body if st is not fi.node]
    # unknown generator functions whose every use is `list(gen(...))`: the generator is the function that appends what it
    # yields to a list and returns it (nothing of the consumer runs between two yields), and the list() wrapper goes away
    for mi in list(prog.modules.values()):
        for gfi in [f for f in prog.funcs.values() if f.mod is mi and f.qname not in known and f.outer is None and not f.nested]:
            ys = [n for n in ast.walk(gfi.node) if isinstance(n, (ast.Yield, ast.YieldFrom))]
            if not ys or gfi.decorators and gfi.decorators != ["staticmethod"]:
                continue
            if any(isinstance(r, ast.Return) and r.value is not None for r in ast.walk(gfi.node)):
                continue
            stmts_ok = all(isinstance(_parent_stmt(gfi.node, y), ast.Expr) and _parent_stmt(gfi.node, y).value is y and (isinstance(y, ast.YieldFrom) or y.value is not None) for y in ys)
            if not stmts_ok:
                continue
            refs, wrapped = 0, []
            for n in ast.walk(mi.tree):
                if isinstance(n, ast.Call) and isinstance(n.func, ast.Name) and n.func.id == "list" and len(n.args) == 1 and not n.keywords and isinstance(n.args[0], ast.Call):
                    f_ = n.args[0].func
                    if (isinstance(f_, ast.Name) and f_.id == gfi.name and gfi.cls is None) or (isinstance(f_, ast.Attribute) and f_.attr == gfi.name and gfi.cls is not None):
                        wrapped.append(n)
            for n in ast.walk(mi.tree):
                if (isinstance(n, ast.Name) and n.id == gfi.name and gfi.cls is None) or (isinstance(n, ast.Attribute) and n.attr == gfi.name and gfi.cls is not None):
                    refs += 1
            if not wrapped or refs != len(wrapped):
                continue
            acc = "result" + SUFFIX

            class Y(ast.NodeTransformer):
                def visit_FunctionDef(self, n):
                    return n if n is not gfi.node else self.generic_visit(n)

                def visit_Lambda(self, n):
                    return n

                def visit_Expr(self, n):
                    v = n.value
                    if isinstance(v, ast.Yield):
                        new = ast.Expr(value=ast.Call(func=ast.Attribute(value=ast.Name(id=acc, ctx=ast.Load()), attr="append", ctx=ast.Load()), args=[v.value], keywords=[]))
                    elif isinstance(v, ast.YieldFrom):
                        new = ast.AugAssign(target=ast.Name(id=acc, ctx=ast.Store()), op=ast.Add(), value=v.value)
                    else:
                        return n
                    ast.copy_location(new, n)
                    ast.fix_missing_locations(new)
                    return new

                def visit_Return(self, n):
                    return ast.copy_location(ast.Return(value=ast.Name(id=acc, ctx=ast.Load())), n)

            Y().visit(gfi.node)
            doc = 1 if gfi.node.body and isinstance(gfi.node.body[0], ast.Expr) and isinstance(gfi.node.body[0].value, ast.Constant) else 0
            gfi.node.body.insert(doc, ast.copy_location(ast.Assign(targets=[ast.Name(id=acc, ctx=ast.Store())], value=ast.List(elts=[], ctx=ast.Load())), gfi.node.body[0]))
            gfi.node.body.append(ast.copy_location(ast.Return(value=ast.Name(id=acc, ctx=ast.Load())), gfi.node.body[-1]))
            gfi.node.returns = None
            ast.fix_missing_locations(gfi.node)
            for w in wrapped:
                inner = w.args[0]
                w.func, w.args, w.keywords = inner.func, inner.args, inner.keywords
            done.append((gfi.qname, "<generator consumed by list(): accumulates and returns the list>"))
    for mi in list(prog.modules.values()):
        cands = {}
        for fi in prog.funcs.values():
            if fi.mod is mi and fi.qname not in known:
                k = inlinable(fi)
                if k:
                    cands[fi.qname] = (fi, k)
        has_gen = any(fi.mod is mi and fi.qname not in known and fi.outer is None and _has(fi.node, (ast.Yield,)) for fi in prog.funcs.values())
        if not cands and not has_gen:
            continue

        def target(call, caller):
            f = call.func
            if isinstance(f, ast.Name):
                fi = caller.nested.get(f.id) or mi.funcs.get(f.id)
            elif isinstance(f, ast.Attribute) and isinstance(f.value, ast.Name) and caller.cls is not None and f.value.id in ("self", "cls", caller.cls.name):
                fi = caller.cls.methods.get(f.attr)
            elif isinstance(f, ast.Attribute) and isinstance(f.value, ast.Name) and f.value.id in mi.classes:
                fi = mi.classes[f.value.id].methods.get(f.attr)
            else:
                fi = None
            if fi is not None and fi.qname in cands and fi is not caller:
                return cands[fi.qname]
            return None

        def hoist(st, caller):
            """f(h(x)) / y = g(h(x)) / return g(h(x)): a call to an unknown multi-statement helper that sits inside a simple
            statement is bound to a temporary first, so that it can be expanded as an assignment"""
            is_if = isinstance(st, ast.If)
            is_for = isinstance(st, ast.For)  # the iterable of a `for` is evaluated once, before the first round
            if not is_if and not is_for and (not isinstance(st, (ast.Expr, ast.Assign, ast.Return)) or st.value is None):
                return [st]
            # x = A if c else B with a multi-statement helper called in an arm: the statement form, so that the arm can be expanded
            if isinstance(st, (ast.Assign, ast.Return)) and isinstance(st.value, ast.IfExp) and any(isinstance(c_, ast.Call) and target(c_, caller) is not None for arm in (st.value.body, st.value.orelse) for c_ in ast.walk(arm)):
                ie = st.value

                def _arm(v):
                    if isinstance(st, ast.Return):
                        n_ = ast.Return(value=v)
                    else:
                        n_ = ast.Assign(targets=[ast.parse(ast.unparse(t_)).body[0].value for t_ in st.targets], value=v)
                        for t_ in n_.targets:
                            for z in ast.walk(t_):
                                if hasattr(z, "ctx") and isinstance(z, (ast.Name, ast.Attribute, ast.Subscript)) and z is t_:
                                    z.ctx = ast.Store()
                    ast.copy_location(n_, st)
                    return ast.fix_missing_locations(n_)

                new_if = ast.If(test=ie.test, body=[_arm(ie.body)], orelse=[_arm(ie.orelse)])
                ast.copy_location(new_if, st)
                ast.fix_missing_locations(new_if)
                return hoist(new_if, caller)
            top = None if (is_if or is_for) else st.value  # (the test of an `if` is evaluated once, before the branches: same treatment)
            pre = []
            k = 0

            class H(ast.NodeTransformer):
                def visit_Lambda(self, n):
                    return n

                def visit_ListComp(self, n):
                    return n

                visit_SetComp = visit_DictComp = visit_GeneratorExp = visit_ListComp

                def visit_IfExp(self, n):
                    n.test = self.visit(n.test)
                    return n  # branches are evaluated conditionally: leave them

                def visit_BoolOp(self, n):
                    n.values[0] = self.visit(n.values[0])
                    return n

                def visit_Call(self, n):
                    nonlocal k
                    self.generic_visit(n)
                    if n is top:
                        return n
                    t = target(n, caller)
                    if t is None:
                        return n
                    k += 1
                    name = f"{t[0].name.strip('_')}_value{k if k > 1 else ''}{SUFFIX}"
                    pre.append(ast.Assign(targets=[ast.Name(id=name, ctx=ast.Store())], value=n, lineno=st.lineno, col_offset=0))
                    return ast.copy_location(ast.Name(id=name, ctx=ast.Load()), n)

            if is_if:
                st.test = H().visit(st.test)
            elif is_for:
                st.iter = H().visit(st.iter)
            else:
                st.value = H().visit(st.value)
            for x in pre:
                ast.fix_missing_locations(x)
            return pre + [st]

        def gen_target(call, caller):
            f = call.func
            fi = None
            if isinstance(f, ast.Name):
                fi = caller.nested.get(f.id) or mi.funcs.get(f.id)
            elif isinstance(f, ast.Attribute) and isinstance(f.value, ast.Name) and caller.cls is not None and f.value.id in ("self", "cls", caller.cls.name):
                fi = caller.cls.methods.get(f.attr)
            if fi is None or fi.qname in known or fi is caller or fi.nested:
                return None
            ys = [n for n in ast.walk(fi.node) if isinstance(n, (ast.Yield, ast.YieldFrom))]
            if len(ys) != 1 or isinstance(ys[0], ast.YieldFrom) or ys[0].value is None:
                return None
            if _returns(fi.node) or any(d for d in fi.decorators if d not in ("staticmethod",)):
                return None
            return fi

        def fuse_generator(gfi, loop, caller):
            """the generator's body with `yield v` replaced by `<target> = v; <loop body>`: valid when nothing runs after the
            yield within an iteration (tail position of its loops / ifs) and nothing runs after the generator's loop"""
            cn = {n.id for n in ast.walk(caller.node) if isinstance(n, ast.Name)} | {a.arg for a in caller.node.args.args}
            ex = _expand(gfi, loop.iter, "straight", cn)
            if ex is None:
                return None
            body, _ret = ex

            def tail_replace(stmts, in_loop):
                """-> (new statements, found) ; the yield must be the last statement of its block chain"""
                for i, st_ in enumerate(stmts):
                    has = any(isinstance(n, ast.Yield) for n in ast.walk(st_))
                    if not has:
                        continue
                    if i != len(stmts) - 1:
                        return None  # something runs after the yield
                    if isinstance(st_, ast.Expr) and isinstance(st_.value, ast.Yield):
                        asg = ast.Assign(targets=[_store(ast.unparse(loop.target))], value=st_.value.value, lineno=loop.lineno, col_offset=0)
                        return stmts[:i] + [asg] + [_clone(b) for b in loop.body]
                    if isinstance(st_, ast.If):
                        in_body = any(isinstance(n, ast.Yield) for b in st_.body for n in ast.walk(b))
                        blk = st_.body if in_body else st_.orelse
                        new = tail_replace(blk, in_loop)
                        if new is None:
                            return None
                        if in_body:
                            st_.body = new
                        else:
                            st_.orelse = new
                        return stmts
                    if isinstance(st_, (ast.For, ast.While)) and not in_loop and not st_.orelse:
                        new = tail_replace(st_.body, True)
                        if new is None:
                            return None
                        st_.body = new
                        return stmts
                    return None
                return None

            new = tail_replace(body, False)
            if new is None:
                return None
            for x in new:
                ast.fix_missing_locations(x)
            return new

        def rewrite(stmts, caller, depth=0):
            out = []
            stmts = [y for x in stmts for y in (hoist(x, caller) if depth < 3 else [x])]
            for st in stmts:
                for field in ("body", "orelse", "finalbody"):
                    blk = getattr(st, field, None)
                    if isinstance(blk, list) and blk and isinstance(blk[0], ast.stmt):
                        setattr(st, field, rewrite(blk, caller, depth))
                if isinstance(st, ast.Try):
                    for h in st.handlers:
                        h.body = rewrite(h.body, caller, depth)
                # return list(gen(a)) / x = list(gen(a))  with gen an unknown generator  ->  an append loop over gen(a), fused below
                lv = st.value if isinstance(st, (ast.Assign, ast.Return)) else None
                if isinstance(lv, ast.Call) and isinstance(lv.func, ast.Name) and lv.func.id == "list" and len(lv.args) == 1 and not lv.keywords and isinstance(lv.args[0], ast.Call) and depth < 3 and (isinstance(st, ast.Return) or (len(st.targets) == 1 and isinstance(st.targets[0], ast.Name))) and gen_target(lv.args[0], caller) is not None:
                    acc = st.targets[0].id if isinstance(st, ast.Assign) else "result" + SUFFIX
                    if not any(isinstance(n, ast.Name) and n.id == acc for n in ast.walk(lv.args[0])):
                        item = "item" + SUFFIX
                        new = [
                            ast.Assign(targets=[ast.Name(id=acc, ctx=ast.Store())], value=ast.List(elts=[], ctx=ast.Load()), lineno=st.lineno, col_offset=0),
                            ast.For(target=ast.Name(id=item, ctx=ast.Store()), iter=lv.args[0], body=[ast.Expr(value=ast.Call(func=ast.Attribute(value=ast.Name(id=acc, ctx=ast.Load()), attr="append", ctx=ast.Load()), args=[ast.Name(id=item, ctx=ast.Load())], keywords=[]), lineno=st.lineno, col_offset=0)], orelse=[], lineno=st.lineno, col_offset=0),
                        ]
                        if isinstance(st, ast.Return):
                            new.append(ast.Return(value=ast.Name(id=acc, ctx=ast.Load()), lineno=st.lineno, col_offset=0))
                        for x in new:
                            ast.fix_missing_locations(x)
                        out += rewrite(new, caller, depth + 1)
                        continue
                # for x in gen(a): BODY  with gen an unknown generator that yields in tail position of its single loop
                if isinstance(st, ast.For) and isinstance(st.iter, ast.Call) and not st.orelse and depth < 3:
                    gfi = gen_target(st.iter, caller)
                    if gfi is not None:
                        fused = fuse_generator(gfi, st, caller)
                        if fused is not None:
                            out += rewrite(fused, caller, depth + 1)
                            done.append((caller.qname, gfi.qname))
                            continue
                call, kind = None, None
                # x = [h(e) for e in it if c] / return [...]  with h an unknown multi-statement helper  ->  an append loop
                comp = st.value if isinstance(st, (ast.Assign, ast.Return)) and isinstance(st.value, ast.ListComp) else None
                if comp is not None and len(comp.generators) == 1 and not comp.generators[0].is_async and isinstance(comp.elt, ast.Call) and depth < 3 and (isinstance(st, ast.Return) or (len(st.targets) == 1 and isinstance(st.targets[0], ast.Name))):
                    t = target(comp.elt, caller)
                    if t is not None and t[1] == "straight":
                        cn = {n.id for n in ast.walk(caller.node) if isinstance(n, ast.Name)} | {a.arg for a in caller.node.args.args}
                        ex = _expand(t[0], comp.elt, "straight", cn)
                        if ex is not None and ex[1] is not None:
                            body, ret = ex
                            gen = comp.generators[0]
                            acc = st.targets[0].id if isinstance(st, ast.Assign) else "result" + SUFFIX
                            final = []
                            if any(isinstance(n, ast.Name) and n.id == acc for n in ast.walk(gen.iter)):
                                final = [ast.Assign(targets=[ast.Name(id=acc, ctx=ast.Store())], value=ast.Name(id="result" + SUFFIX, ctx=ast.Load()), lineno=st.lineno, col_offset=0)]
                                acc = "result" + SUFFIX
                            inner = rewrite(body, caller, depth + 1) + [ast.Expr(value=ast.Call(func=ast.Attribute(value=ast.Name(id=acc, ctx=ast.Load()), attr="append", ctx=ast.Load()), args=[ret], keywords=[]), lineno=st.lineno, col_offset=0)]
                            for cond in reversed(gen.ifs):
                                inner = [ast.If(test=cond, body=inner, orelse=[], lineno=st.lineno, col_offset=0)]
                            out.append(ast.Assign(targets=[ast.Name(id=acc, ctx=ast.Store())], value=ast.List(elts=[], ctx=ast.Load()), lineno=st.lineno, col_offset=0))
                            out.append(ast.For(target=gen.target, iter=gen.iter, body=inner, orelse=[], lineno=st.lineno, col_offset=0))
                            out += final
                            if isinstance(st, ast.Return):
                                out.append(ast.Return(value=ast.Name(id=acc, ctx=ast.Load()), lineno=st.lineno, col_offset=0))
                            done.append((caller.qname, t[0].qname))
                            continue
                if isinstance(st, ast.Expr) and isinstance(st.value, ast.Call):
                    call, kind = st.value, "expr"
                elif isinstance(st, ast.Assign) and isinstance(st.value, ast.Call):
                    call, kind = st.value, "assign"
                elif isinstance(st, ast.Return) and isinstance(st.value, ast.Call):
                    call, kind = st.value, "tail"
                t = target(call, caller) if call is not None and depth < 3 else None
                if t is None:
                    out.append(st)
                    continue
                fi, mode = t
                if kind == "assign" and mode != "straight" and len(st.targets) == 1 and (isinstance(st.targets[0], (ast.Name, ast.Attribute, ast.Subscript)) or (isinstance(st.targets[0], ast.Tuple) and all(isinstance(e, ast.Name) for e in st.targets[0].elts))):
                    # helper with several returns, all in tail position: each `return e` becomes `target = e`
                    cn = {n.id for n in ast.walk(caller.node) if isinstance(n, ast.Name)} | {a.arg for a in caller.node.args.args}
                    ex = _expand(fi, call, "tail", cn)
                    tl = _tailify(ex[0], ast.unparse(st.targets[0]), st.lineno) if ex is not None else None
                    if tl is not None:
                        for x in tl:
                            ast.fix_missing_locations(x)
                        out += rewrite(tl, caller, depth + 1)
                        done.append((caller.qname, fi.qname))
                        continue
                if kind in ("expr", "assign") and mode != "straight":
                    out.append(st)
                    continue
                cn = {n.id for n in ast.walk(caller.node) if isinstance(n, ast.Name)} | {a.arg for a in caller.node.args.args}
                ex = _expand(fi, call, "straight" if kind != "tail" or mode == "straight" else "tail", cn)
                if ex is None:
                    out.append(st)
                    continue
                body, ret = ex
                body = rewrite(body, caller, depth + 1)
                if kind == "assign" and len(st.targets) == 1:
                    # s = helper(s, ...) with the helper re-binding its parameter: the parameter IS the caller's variable (it is
                    # overwritten by the result anyway), so it keeps the caller's name instead of a renamed copy
                    tn = {n.id for n in ast.walk(st.targets[0]) if isinstance(n, ast.Name)}
                    for pa in [b_ for b_ in body if isinstance(b_, ast.Assign) and len(b_.targets) == 1 and isinstance(b_.targets[0], ast.Name) and b_.targets[0].id.endswith(SUFFIX) and isinstance(b_.value, ast.Name)]:
                        hn, an = pa.targets[0].id, pa.value.id
                        if an not in tn or hn[: -len(SUFFIX)] != an:
                            continue
                        others_ = [n for b_ in body if b_ is not pa for n in ast.walk(b_) if isinstance(n, ast.Name) and n.id == an] + ([n for n in ast.walk(ret) if isinstance(n, ast.Name) and n.id == an] if ret is not None else [])
                        if others_:
                            continue
                        body = [b_ for b_ in body if b_ is not pa]
                        for b_ in body + ([ret] if ret is not None else []):
                            for n in ast.walk(b_):
                                if isinstance(n, ast.Name) and n.id == hn:
                                    n.id = an
                if kind == "expr":
                    out += body
                elif kind == "assign":
                    tgt = st.targets[0] if len(st.targets) == 1 else None
                    pairs = None
                    if isinstance(tgt, ast.Name) and isinstance(ret, ast.Name):
                        pairs = [(tgt, ret)]
                    elif isinstance(tgt, ast.Tuple) and isinstance(ret, ast.Tuple):
                        from .normalize import _flatten_pairs

                        fp = _flatten_pairs(tgt, ret)
                        if fp is not None:
                            tnames = {t.id for t, _ in fp}
                            if not any(isinstance(n, ast.Name) and n.id in tnames for _, r in fp for n in ast.walk(r)):
                                pairs = fp
                    if pairs is None:
                        out += body
                        st.value = ret if ret is not None else ast.Constant(value=None)
                        out.append(st)
                    else:
                        # a, b = (x, y) -> a = x; b = y ; and a helper local that only feeds its target takes the target's name
                        copies = []
                        for t, r in pairs:
                            helper_local = isinstance(r, ast.Name) and any(isinstance(n, ast.Name) and n.id == r.id and isinstance(n.ctx, ast.Store) for b_ in body for n in ast.walk(b_))
                            if helper_local and ((r.id.endswith(SUFFIX) and r.id[: -len(SUFFIX)] == t.id) or r.id not in cn):
                                uses = [n for b_ in body for n in ast.walk(b_) if isinstance(n, ast.Name) and n.id == t.id]
                                # the target may be read by the helper's arguments (args_str = f(args_str)): then it is read before it is re-bound
                                reads_ok = all(isinstance(n.ctx, ast.Load) for n in uses)

                                def _idx(name, store):
                                    out_ = []
                                    for i_, b_ in enumerate(body):
                                        for n in ast.walk(b_):
                                            if isinstance(n, ast.Name) and n.id == name and isinstance(n.ctx, ast.Store if store else ast.Load):
                                                out_.append(i_)
                                    return out_

                                st_idx = _idx(r.id, True)
                                ld_idx = _idx(t.id, False)
                                # every read of the target happens no later than the statement that first binds the helper local
                                # (in that statement the right-hand side is evaluated before the binding)
                                early = bool(st_idx) and all(i_ <= min(st_idx) for i_ in ld_idx) and not any(isinstance(body[min(st_idx)], (ast.For, ast.While, ast.If, ast.Try, ast.With)) for _ in [0])
                                if not uses or (reads_ok and early):
                                    for b_ in body:
                                        for n in ast.walk(b_):
                                            if isinstance(n, ast.Name) and n.id == r.id:
                                                n.id = t.id
                                    continue
                            copies.append(ast.Assign(targets=[ast.Name(id=t.id, ctx=ast.Store())], value=r, lineno=st.lineno, col_offset=0))
                        out += body + copies
                else:
                    out += body
                    if mode == "straight" or ret is not None:
                        st.value = ret if ret is not None else ast.Constant(value=None)
                        out.append(st)
                done.append((caller.qname, fi.qname))
            return out

        for caller in [f for f in prog.funcs.values() if f.mod is mi]:
            caller.node.body = _drop_identity(rewrite(caller.node.body, caller))
            # closures whose every use was expanded are dropped
            for nm, nf in list(caller.nested.items()):
                if nf.qname in cands and any(h == nf.qname for _, h in done):
                    used = any(isinstance(n, ast.Name) and n.id == nm for st in caller.node.body if st is not nf.node for n in ast.walk(st) if not (isinstance(st, (ast.FunctionDef, ast.AsyncFunctionDef)) and st.name == nm))
                    if not used:
                        caller.node.body = [st for st in caller.node.body if not (isinstance(st, (ast.FunctionDef, ast.AsyncFunctionDef)) and st.name == nm)]
            ast.fix_missing_locations(caller.node)
    if done:
        # helpers that were expanded at every place they are mentioned are dropped: nothing reaches them any more
        helpers = {h for _, h in done}
        for mi in prog.modules.values():
            names_left = {}
            for n in ast.walk(mi.tree):
                if isinstance(n, ast.Name):
                    names_left[n.id] = names_left.get(n.id, 0) + 1
                elif isinstance(n, ast.Attribute):
                    names_left[n.attr] = names_left.get(n.attr, 0) + 1

            def prune(body, prefix):
                out = []
                for st in body:
                    if isinstance(st, (ast.FunctionDef, ast.AsyncFunctionDef)) and f"{prefix}.{st.name}" in helpers and names_left.get(st.name, 0) == 0 and st.name not in known_names:
                        continue
                    if isinstance(st, ast.ClassDef):
                        st.body = prune(st.body, f"{prefix}.{st.name}") or [ast.Pass()]
                    out.append(st)
                return out

            known_names = {q.rsplit(".", 1)[1] for q in known}
            mi.tree.body = prune(mi.tree.body, mi.name)
        from .normalize import rows_comprehension_to_loop, split_tuple_assigns

        for f in prog.funcs.values():
            if any(c == f.qname for c, _ in done):
                rows_comprehension_to_loop(f.node)

        touched = {c for c, _ in done}
        for f in prog.funcs.values():
            if f.qname in touched:
                f.node.body = split_tuple_assigns(f.node.body)
                ast.fix_missing_locations(f.node)
    return done
