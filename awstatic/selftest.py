"""Both-ways self-test of the rules (thorough tier).  Every variant is an edit of a scratch copy
of the *current* tree (outside /repo and /verif, removed afterwards) that is re-ANALYSED, never
executed.  'B' variants break the property and must be reported under the named rule; 'OK' variants
preserve behaviour and must leave every rule silent."""
from __future__ import annotations

import ast
import multiprocessing as mp
import os
import shutil
import tempfile

from .model import PACKAGES


def _copy_tree(repo, dst):
    for pkg in PACKAGES:
        s = os.path.join(repo, pkg)
        if os.path.isdir(s):
            shutil.copytree(s, os.path.join(dst, pkg), ignore=shutil.ignore_patterns("__pycache__", "*.pyc"))


def _apply_patch(root, patch):
    import subprocess

    p = subprocess.run(["patch", "-p1", "--no-backup-if-mismatch", "-s", "-f", "-i", patch], cwd=root, capture_output=True, text=True)
    if p.returncode != 0:
        return "patch does not apply to the current tree: " + (p.stdout + p.stderr).strip().splitlines()[0][:120] if (p.stdout + p.stderr).strip() else "patch does not apply"
    return None


def _apply(root, edits):
    """edits: list of (relpath, old, new[, count]).  -> None if applied, else reason string"""
    for ed in edits:
        rel, old, new = ed[0], ed[1], ed[2]
        count = ed[3] if len(ed) > 3 else 1
        p = os.path.join(root, rel)
        if not os.path.exists(p):
            return f"{rel} missing"
        s = open(p, encoding="utf-8").read()
        if s.count(old) != count:
            return f"{rel}: anchor text occurs {s.count(old)}x (expected {count})"
        s = s.replace(old, new)
        try:
            ast.parse(s)
        except SyntaxError as e:
            return f"{rel}: variant does not parse: {e}"
        open(p, "w", encoding="utf-8").write(s)
    return None


def _run_one(args):
    prop, repo, variant = args
    from .main import run_property

    name, edits, expect = variant["name"], variant["edits"], variant["expect"]
    tmp = tempfile.mkdtemp(prefix="awstatic-st-")
    try:
        _copy_tree(repo, tmp)
        why = _apply_patch(tmp, variant["patch"]) if variant.get("patch") else _apply(tmp, edits)
        if why is not None:
            return {"name": name, "expect": expect, "skipped": True, "why": why, "pass": True}
        code, rep = run_property(prop, "quick", tmp, os.path.join(tmp, "_ev"), quiet=True, selftest=False)
        viol = [o for o in rep.obligations if o.status == "violation"]
        und = [o for o in rep.obligations if o.status == "undecided"]
        got = sorted({f"{o.rule}@{o.function}" for o in viol})
        res = {"name": name, "expect": expect, "exit": code, "violations": got, "undecided": [f"{o.rule}@{o.function}: {o.detail[:80]}" for o in und][:4], "errors": rep.errors[:3]}
        if expect == "ok":
            res["pass"] = code == 0
            if code != 0:
                res["why"] = f"behaviour-preserving variant made the check exit {code}: {got or res['undecided'] or res['errors']}"
        else:
            rules = expect if isinstance(expect, (list, tuple)) else [expect]
            hit = any(r == "*" or any(g.startswith(r.split("@")[0] + "@") and (("@" not in r) or r.split("@")[1] in g) for g in got) for r in rules) and bool(got)
            res["pass"] = code == 1 and hit
            if variant.get("guarded"):
                # a kept mutant that the soundness guard declines to judge (it works through code of another module reached by a
                # new import): the check must not pass it (exit 0) and must say why it does not decide (exit 2, guard reason)
                res["pass"] = (code == 1 and hit) or (code == 2 and any("[not decided:" in u for u in res["undecided"]))
            if not res["pass"]:
                res["why"] = f"breaking variant not reported under {rules}: exit {code}, violations {got}, undecided {res['undecided']}, errors {res['errors']}"
        return res
    except Exception as e:  # pragma: no cover
        return {"name": name, "expect": expect, "pass": False, "why": f"selftest crashed: {type(e).__name__}: {e}"}
    finally:
        shutil.rmtree(tmp, ignore_errors=True)


def run_selftest(prop, mod, rep, jobs=None):
    variants = []
    for v in mod.VARIANTS:
        if isinstance(v, dict):
            variants.append(v)
        else:
            name, rel, old, new, expect = v
            variants.append({"name": name, "edits": [(rel, old, new)], "expect": expect})
    # corpora kept under /verif: independent mutants that break this property, and behaviour-preserving refactorings
    import glob
    import json as _json

    here = os.path.dirname(os.path.dirname(os.path.abspath(__file__)))
    for d in sorted(glob.glob(os.path.join(here, "seeded", "*"))):
        try:
            meta = _json.load(open(os.path.join(d, "meta.json")))
        except Exception:
            continue
        if prop in (meta.get("static_checks", {}).get("caught_by") or []) or meta.get("property") == prop:
            variants.append({"name": f"seeded {os.path.basename(d)}: {str(meta.get('what_breaks', ''))[:70]}", "edits": [], "patch": os.path.join(d, "patch.diff"), "expect": "*", "guarded": bool(meta.get("guarded"))})
    for d in sorted(glob.glob(os.path.join(here, "benign", "*"))):
        variants.append({"name": f"benign {os.path.basename(d)}", "edits": [], "patch": os.path.join(d, "patch.diff"), "expect": "ok"})
    jobs = jobs or min(16, max(1, len(variants)))
    args = [(prop, rep.repo, v) for v in variants]
    if jobs > 1 and len(args) > 1:
        ctx = mp.get_context("fork")
        with ctx.Pool(jobs) as pool:
            results = pool.map(_run_one, args)
    else:
        results = [_run_one(a) for a in args]
    rep.selftest = results
    n_b = sum(1 for r in results if r["expect"] != "ok" and not r.get("skipped"))
    n_ok = sum(1 for r in results if r["expect"] == "ok" and not r.get("skipped"))
    rep.extra["selftest_summary"] = {"breaking_variants_run": n_b, "benign_variants_run": n_ok, "skipped": sum(1 for r in results if r.get("skipped")), "failed": [r["name"] for r in results if not r["pass"]]}
    return results
