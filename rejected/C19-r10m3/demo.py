"""C19: simplify_string only strips "(<ascii digits>) " prefixes, "FPS: <ascii number>" and a leading dot/star."""
import re
import sys
from datetime import datetime, timedelta, timezone

from aw_core.models import Event
from aw_transform import simplify_string

now = datetime(2024, 1, 1, tzinfo=timezone.utc)


def reference(title, has_app):
    title = re.sub(r"^\([0-9]+\)\s*", "", title)
    if has_app:
        title = re.sub(r"FPS:\s+[0-9\.]+", "FPS: ...", title)
        title = re.sub(r"^(●|\*)\s*", "", title)
    return title


titles = [
    "(3) YouTube",
    "● notes.md - Code",
    "Cemu - FPS: 59.2 - BotW",
    "(٣) البريد الوارد",  # "(٣) inbox" with an Arabic-Indic digit
    "(２) 新着メッセージ",  # fullwidth digit two
    "खेल - FPS: ०५ - test",  # Devanagari digits after FPS:
    "(๑๒) ข้อความ",  # Thai digits
]
errors = []
for has_app in (True, False):
    events = []
    for i, t in enumerate(titles):
        d = {"title": t, "n": i}
        if has_app:
            d["app"] = "browser"
        events.append(Event(id=i, timestamp=now + timedelta(seconds=i), duration=i, data=d))
    out = simplify_string(events, "title")
    if len(out) != len(titles):
        errors.append("event count changed")
    for i, (t, e) in enumerate(zip(titles, out)):
        want = reference(t, has_app)
        if e.data["title"] != want:
            errors.append("app=%s title %r: expected %r got %r" % (has_app, t, want, e.data["title"]))
        if e.data["n"] != i or e.timestamp != now + timedelta(seconds=i) or e.duration != timedelta(seconds=i):
            errors.append("unrelated fields changed for %r" % t)

if errors:
    print("C19 BROKEN: simplify_string rewrote titles it must leave alone")
    print("\n".join(errors))
    sys.exit(1)
print("ok")
