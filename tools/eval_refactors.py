#!/usr/bin/env python3
"""False-alarm test: apply each behaviour-preserving refactoring produced by a sub-agent
(/tmp/rf_*/REFACTOR/r*/patch.diff) in its scratch worktree, make sure the unedited suite still passes,
and run all twenty checks against it.  Every check must exit 0.  Not part of any registered command."""
import glob
import json
import os
import re
import shutil
import subprocess
import sys
import tempfile
from concurrent.futures import ThreadPoolExecutor

VERIF = os.path.dirname(os.path.dirname(os.path.abspath(__file__)))
PROPS = [f"C{i:02d}" for i in range(1, 21)]


def sh(cmd, cwd=None, env=None, timeout=900):
    p = subprocess.run(cmd, shell=True, cwd=cwd, env=env, capture_output=True, text=True, timeout=timeout)
    return p.returncode, p.stdout + p.stderr


def one(rdir, run_tests="--no-tests" not in sys.argv):
    rdir = os.path.abspath(rdir)
    wt = os.path.dirname(os.path.dirname(rdir))
    label_wt = wt
    if not os.path.isdir(os.path.join(wt, "aw_core")):
        wt = "/repo"  # a filed patch (/verif/benign/<name>): applied to the repository's HEAD
    tmp = tempfile.mkdtemp(prefix="rfv-")
    tree = tmp + "/tree"
    os.makedirs(tree)
    env = dict(os.environ, XDG_DATA_HOME=tmp + "/data", XDG_CONFIG_HOME=tmp + "/config", XDG_CACHE_HOME=tmp + "/cache", HOME=tmp, PYTHONPATH=tree)
    out = {"refactor": (f"{os.path.basename(label_wt)}-{os.path.basename(rdir)}" if wt == label_wt else os.path.basename(rdir)), "dir": rdir}
    try:
        # a private copy of the pristine commit: the agent may still be editing its worktree
        code, o = sh(f"git -C {wt} archive HEAD | tar -x -C {tree}")
        code, o = sh(f"git apply {rdir}/patch.diff", cwd=tree)
        if code != 0:
            code, o = sh(f"patch -p1 < {rdir}/patch.diff", cwd=tree)
        if code != 0:
            out["error"] = "patch does not apply: " + o[:160]
            return out
        if run_tests:
            code, o = sh("/venv/bin/python -m pytest -q -p no:cacheprovider --timeout=900 -x", cwd=tree, env=env)
            m = re.search(r"(\d+) passed", o)
            out["tests_passed"] = int(m.group(1)) if m else 0
        alarms = {}
        for p in PROPS:
            code, o = sh(f"./check {p} --repo {tree} --evidence-dir {tmp}/ev", cwd=VERIF)
            if code != 0:
                alarms[p] = {"exit": code, "lines": [l.strip() for l in o.splitlines() if l.startswith(("  ", "ANALYSIS")) and ("—" in l or "ANALYSIS" in l)][:3]}
        out["alarms"] = alarms
    finally:
        shutil.rmtree(tmp, ignore_errors=True)
    return out


def main():
    dirs = [a for a in sys.argv[1:] if not a.startswith("--")] or sorted(glob.glob("/tmp/rf_*/REFACTOR/r*"))
    by_wt = {}
    for d in dirs:
        by_wt.setdefault(os.path.dirname(os.path.dirname(d)), []).append(d)
    results = []
    with ThreadPoolExecutor(max_workers=8) as ex:
        for r in ex.map(one, dirs):
            results.append(r)
    n_alarm = 0
    for r in results:
        note = ""
        try:
            note = open(os.path.join(r["dir"], "note.txt")).read().strip().replace("\n", " ")[:110]
        except Exception:
            pass
        print(f"{r['refactor']:12s} tests={r.get('tests_passed')} alarms={sorted(r.get('alarms', {}))} {r.get('error', '')} | {note}")
        for p, a in r.get("alarms", {}).items():
            n_alarm += 1
            for l in a["lines"]:
                print(f"      {p} exit {a['exit']}: {l[:220]}")
    print(f"{len(results)} refactorings, {n_alarm} alarms")
    json.dump(results, open("/tmp/refactor_results.json", "w"), indent=1)


if __name__ == "__main__":
    main()
