#!/usr/bin/env python3
"""Confirm sub-agent mutants and measure which checks catch them.

For every /tmp/wt_C*/MUTANT/m*/ (or the directories given on the command line):
  1. apply patch.diff in that scratch worktree (never in /repo),
  2. run the repository's unedited test suite there (isolated XDG dirs)  -> must be 156 passed,
  3. run the mutant's demo                                               -> must fail,
  4. run all 20 static checks against the patched worktree (--repo)      -> record exit codes,
  5. revert the worktree, run the demo again                              -> must pass.
A mutant that passes 2, 3 and 5 is copied to /verif/seeded/<id>/ with a meta.json recording what was run
and which checks reported a VIOLATION.  Nothing here is part of a registered check command.
"""
import json
import os
import re
import shutil
import subprocess
import sys
import tempfile
from concurrent.futures import ThreadPoolExecutor

VERIF = os.path.dirname(os.path.dirname(os.path.abspath(__file__)))
PROPS = [f"C{i:02d}" for i in range(1, 21)]


def sh(cmd, cwd=None, env=None, timeout=900):
    p = subprocess.run(cmd, shell=True, cwd=cwd, env=env, capture_output=True, text=True, timeout=timeout)
    return p.returncode, (p.stdout + p.stderr)


def run_checks(repo, evdir):
    res = {}
    for p in PROPS:
        code, out = sh(f"./check {p} --repo {repo} --evidence-dir {evdir}", cwd=VERIF)
        viol = sorted(set(re.findall(r"— (\S+) —", out))) if code == 1 else []
        res[p] = {"exit": code, "rules": viol, "lines": [l.strip() for l in out.splitlines() if l.startswith("  ") and "—" in l][:4]}
    return res


def verify(mdir):
    wt = os.path.dirname(os.path.dirname(mdir))
    name = os.path.basename(mdir)
    import re as _re

    mm = _re.match(r"w(t|\d+)_(C\d\d)$", os.path.basename(wt))
    prop = mm.group(2) if mm else os.path.basename(wt)
    rnd = f"r{mm.group(1)}" if mm and mm.group(1) not in ("t", "1") else ""
    tmp = tempfile.mkdtemp(prefix="seedv-")
    env = dict(os.environ, XDG_DATA_HOME=tmp + "/data", XDG_CONFIG_HOME=tmp + "/config", XDG_CACHE_HOME=tmp + "/cache", PYTHONPATH=wt, HOME=tmp)
    out = {"mutant": f"{prop}-{rnd}{name}", "property": prop, "dir": mdir}
    try:
        patch = os.path.join(mdir, "patch.diff")
        demo = os.path.join(mdir, "demo.py")
        if not (os.path.exists(patch) and os.path.exists(demo)):
            out["error"] = "missing patch.diff / demo.py"
            return out
        code, o = sh("git status --porcelain --untracked-files=no", cwd=wt)
        if o.strip():
            sh("git checkout -- .", cwd=wt)
        code, o = sh(f"git apply {patch}", cwd=wt)
        if code != 0:
            out["error"] = "patch does not apply: " + o[:200]
            return out
        try:
            code, o = sh("/venv/bin/python -m pytest -q -p no:cacheprovider --timeout=900 -x", cwd=wt, env=env)
            m = re.search(r"(\d+) passed", o)
            out["tests_passed"] = int(m.group(1)) if m else 0
            out["tests_ok"] = code == 0 and out["tests_passed"] == 156
            code, o = sh(f"/venv/bin/python {demo}", cwd=wt, env=env, timeout=300)
            out["demo_fails_with_change"] = code != 0
            out["demo_output_with_change"] = o[-400:]
            out["checks"] = run_checks(wt, tmp + "/ev")
        finally:
            sh("git checkout -- .", cwd=wt)
        code, o = sh(f"/venv/bin/python {demo}", cwd=wt, env=env, timeout=300)
        out["demo_passes_without_change"] = code == 0
        if code != 0:
            out["demo_output_without_change"] = o[-400:]
        out["confirmed"] = bool(out.get("tests_ok") and out["demo_fails_with_change"] and out["demo_passes_without_change"])
        out["caught_by"] = sorted(p for p, r in out["checks"].items() if r["exit"] == 1)
        out["undecided_in"] = sorted(p for p, r in out["checks"].items() if r["exit"] == 2)
        out["caught_by_target"] = prop in out["caught_by"]
    except Exception as e:
        out["error"] = f"{type(e).__name__}: {e}"
    finally:
        shutil.rmtree(tmp, ignore_errors=True)
    return out


def keep(res):
    """copy a confirmed mutant into /verif/seeded/"""
    dst = os.path.join(VERIF, "seeded", res["mutant"])
    os.makedirs(dst, exist_ok=True)
    for f in ("patch.diff", "demo.py"):
        shutil.copy(os.path.join(res["dir"], f), os.path.join(dst, f))
    meta = {}
    try:
        meta = json.load(open(os.path.join(res["dir"], "meta.json")))
    except Exception:
        pass
    meta.update(
        {
            "property": res["property"],
            "origin": "fresh sub-agent given only the property text and its own scratch worktree",
            "confirmed_by_me": {
                "what_i_ran": "tools/verify_seeded.py: git apply in the scratch worktree; unedited pytest suite (156 passed); demo.py (fails); git checkout; demo.py (passes); ./check C01..C20 --repo <patched worktree>",
                "tests_passed_with_change": res.get("tests_passed"),
                "demo_fails_with_change": res.get("demo_fails_with_change"),
                "demo_passes_without_change": res.get("demo_passes_without_change"),
            },
            "static_checks": {"caught_by": res.get("caught_by"), "caught_by_target_property": res.get("caught_by_target"), "undecided_in": res.get("undecided_in"), "reports": {p: r["lines"] for p, r in res.get("checks", {}).items() if r["exit"] == 1}},
        }
    )
    json.dump(meta, open(os.path.join(dst, "meta.json"), "w"), indent=1)


def main():
    dirs = sys.argv[1:]
    if not dirs:
        import glob

        dirs = sorted(glob.glob("/tmp/wt_C*/MUTANT/m*"))
    # one worker per worktree at a time: group by worktree
    by_wt = {}
    for d in dirs:
        by_wt.setdefault(os.path.dirname(os.path.dirname(d)), []).append(d)

    def run_wt(ds):
        return [verify(d) for d in ds]

    results = []
    with ThreadPoolExecutor(max_workers=6) as ex:
        for rs in ex.map(run_wt, by_wt.values()):
            results += rs
    for r in results:
        if r.get("confirmed"):
            keep(r)
        status = "CONFIRMED" if r.get("confirmed") else "REJECTED"
        print(f"{r['mutant']:10s} {status:9s} tests={r.get('tests_passed')} demo_fail={r.get('demo_fails_with_change')} demo_ok_clean={r.get('demo_passes_without_change')} caught_by={r.get('caught_by')} undecided={r.get('undecided_in')} {r.get('error', '')}")
        if r.get("confirmed") and not r.get("caught_by_target"):
            print(f"    MISSED by {r['property']}; demo says: {r.get('demo_output_with_change', '')[-200:].strip()!r}")
    json.dump(results, open("/tmp/seed_results.json", "w"), indent=1)


if __name__ == "__main__":
    main()
