#!/usr/bin/env python3
"""False-alarm probe: compositions of two filed behaviour-preserving refactorings that touch the same file (the second applied
with `patch -F0` on top of the first; pairs that do not apply or do not compile are skipped).  A composition of two
behaviour-preserving changes preserves behaviour, so every check must stay at exit 0 on it.
Usage: compose_benign.py OUTDIR [N] [SEED]; then tools/eval_refactors.py OUTDIR/s*.  Not part of any registered command."""
import glob
import os
import random
import re
import subprocess
import sys

out = os.path.abspath(sys.argv[1])
n_want = int(sys.argv[2]) if len(sys.argv) > 2 else 50
random.seed(int(sys.argv[3]) if len(sys.argv) > 3 else 11)
here = os.path.dirname(os.path.dirname(os.path.abspath(__file__)))
ben = sorted(glob.glob(os.path.join(here, "benign", "*")))


def files(d):
    return set(re.findall(r"^\+\+\+ b/(\S+)", open(d + "/patch.diff").read(), re.M))


F = {d: files(d) for d in ben}
byfile = {}
for d, fs in F.items():
    for f in fs:
        byfile.setdefault(f, []).append(d)
cands = []
for f, ds in byfile.items():
    for _ in range(400):
        if len(ds) < 2:
            break
        cands.append(tuple(random.sample(ds, 2)))
random.shuffle(cands)
os.makedirs(out, exist_ok=True)
w = os.path.join(out, "w")
subprocess.run(["git", "-C", "/repo", "worktree", "add", "--detach", w, "HEAD", "-q"], capture_output=True)
pairs, seen = [], set()
try:
    for a, b in cands:
        if len(pairs) >= n_want:
            break
        if (a, b) in seen or (b, a) in seen:
            continue
        seen.add((a, b))
        subprocess.run(["git", "-C", w, "reset", "-q", "--hard", "HEAD"], capture_output=True)
        subprocess.run(["git", "-C", w, "clean", "-fdq"], capture_output=True)
        if subprocess.run(["git", "-C", w, "apply", a + "/patch.diff"], capture_output=True).returncode:
            continue
        if subprocess.run(["patch", "-p1", "-s", "-F0", "--no-backup-if-mismatch", "-d", w, "-i", b + "/patch.diff"], capture_output=True).returncode:
            continue
        if any(os.path.exists(os.path.join(w, f)) and f.endswith(".py") and subprocess.run(["/venv/bin/python", "-m", "py_compile", os.path.join(w, f)], capture_output=True).returncode for f in F[a] | F[b]):
            continue
        subprocess.run(["git", "-C", w, "add", "-A"], capture_output=True)
        diff = subprocess.run(["git", "-C", w, "diff", "--cached", "HEAD"], capture_output=True, text=True).stdout
        d = os.path.join(out, f"s{len(pairs):02d}")
        os.makedirs(d, exist_ok=True)
        open(d + "/patch.diff", "w").write(diff)
        open(d + "/note.txt", "w").write(f"composition of {os.path.basename(a)} and {os.path.basename(b)} (same file)\n")
        pairs.append((a, b))
finally:
    subprocess.run(["git", "-C", "/repo", "worktree", "remove", "--force", w], capture_output=True)
    subprocess.run(["git", "-C", "/repo", "worktree", "prune"], capture_output=True)
print(len(pairs), "same-file compositions in", out)
