# Claims table, exec'd by gen_manifest.py.  claim(id, category, text, level_note, technique)
claim(
    'C04',
    'proof',
    "Frame property decided for all ids, instants and histories at once: every SQL statement (every query level), every peewee chain/save() and every use of the in-memory per-bucket containers is restricted to the addressed bucket's key, the wrappers forward that key, and the key is unique by schema. No construct can roll back the shared open transaction (NO-ROLLBACK: no rollback(), no `with connection`, no executescript), which would undo buffered writes of other buckets.",
    "Trusted: SQL semantics of the modelled subset, peewee's translation of the modelled builder calls (save() with a primary key = UPDATE by pk), C01's ownership rules for the memory backend. A statement outside the modelled subset is exit 2, not a pass.",
    'embedded-SQL / query-chain scope analysis (lark-parsed SQL, placeholder binding by reaching definitions) + CFG path-condition check for save()',
)
claim(
    'C06',
    'proof',
    "Commit discipline of the lazily-committing sqlite store decided on every path of every writing method (must-pass-through commit / conditional_commit with the right row count, threshold <= 60, counter reset, no split bucket operation, no foreign writer); the auto-committing store opens no transaction. Together with SQLite's transaction semantics this bounds the lost tail for every history and crash point. Nothing can roll the open transaction back (NO-ROLLBACK). A handler around conn.commit() must re-raise (a failed flush is not booked as a flush); on the auto-committing store a single-event operation is at most one writing statement per path (PW-ATOMIC).",
    'Trusted: SQLite/WAL loses exactly the statements since the last conn.commit(), each statement atomically; peewee autocommits outside atomic(). What the file holds after SIGKILL is not decided here.',
    'must-pass-through / dominance queries on per-method CFGs over DML sites classified by the embedded-SQL model; who-may-call scan',
)
claim(
    'C18',
    'proof',
    'The age test of conditional_commit is canonicalised to an affine literal over {clock, last_commit}; its sign, constant (1..15 s) and placement (evaluated on every lazy path that has not committed, true branch commits) are decided, as is that commit() stamps last_commit and that every event write reaches conditional_commit. The stamps and the age test read the same clock (AGE-STAMP one-clock clause) and no event write flushes before it writes (AGE-FRESH). A failed commit is not stamped.',
    'Trusted: non-decreasing wall clock; durability of conn.commit() (C06).',
    'affine canonicalisation of the comparison + CFG placement (must-pass-through) queries',
)
claim(
    'C02',
    'other',
    "Necessary structural clauses of the list-model equivalence, each decided for all ids, instants and histories: replace_last's target selection has the same descriptor (scope, order key, direction, limit 1) as a limit-1 read; delete/replace/lookup address exactly (event id, bucket); insert_many's partitions are complementary and routed to update-by-id / INSERT-without-id; ids are engine-allocated unique keys (schema) or max+1 over the bucket (memory). The SQL backends' encode/decode tables and scale constants agree at every write and read site (CODEC), so what is written is what a list would hold. OWN-IN/OWN-OUT (E2) for the event methods, INSERT-PATHS of the Bucket wrapper and NO-ROLLBACK are included.",
    'Equality with the reference list model after every step of every history is NOT decided (it is a refinement proof over unbounded histories). Trusted: SQL semantics of the modelled subset, peewee builder translation.',
    'embedded-SQL / query-chain descriptor comparison, list-pipeline descriptors for the memory backend, comprehension-condition complementarity',
)
claim(
    'C03',
    'other',
    "Shape of the read path decided per backend for all windows and contents: window predicate of get_events and get_eventcount canonicalised to affine literals and required to be exactly {w.start <= ev.start+ev.dur, ev.start <= w.end} (non-strict, neutral sentinels, optional 24 h pre-filter); ORDER BY start descending; limit 0 / negative / positive handling and slice-after-filter; window rounding idioms in Bucket.get; the peewee clip loop's assignments by constant propagation of affine forms.",
    'Not decided: the ~2 ms edge tolerance, float/julianday precision, SQLite planner behaviour on ties. Trusted: SQL comparison/ORDER BY/LIMIT semantics, datetime arithmetic = integer microsecond arithmetic.',
    'affine canonicalisation of SQL conjuncts / peewee where() arguments / comprehension conditions; CFG dominance for limit handling; idiom matching for rounding',
)
claim(
    'C07',
    'other',
    "aw-core's share of the ingestion loop: the 'newest event' read by get(limit=1) and rewritten by replace_last is the same row under the stream assumption (order key = start instant in all three backends, same scope), replace_last changes only instant/duration/data of that row, and the Bucket wrappers are pass-throughs. The merge rule is C08. What the loop reads back is what was written: encode/decode agreement of the SQL backends (CODEC). NO-ROLLBACK: an accepted heartbeat is not discarded by a later failing operation.",
    'The ingestion loop itself lives in aw-server, and whole-stream equality with heartbeat_reduce is an inductive argument that is not machine-checked here.',
    'embedded-SQL / query-chain descriptor comparison + pass-through (parameter forwarding) checks',
)
claim(
    'C08',
    'proof',
    "heartbeat_merge is loop-free: all CFG paths are enumerated, the merging path's literal set is canonicalised to affine forms and must equal {data equal, last.ts <= hb.ts <= last.ts + last.dur + pulsetime, last.dur >= 0} with non-strict bounds, its only field write must be last.duration := max(last.dur, hb.ts - last.ts + hb.dur), every other path returns None and writes nothing; heartbeat_reduce must have the left-fold shape (seed, argument order, replace-last / append branches). For loop-free affine code, equality of canonical forms is equality of behaviour. Shortcuts before the fold are taken only for fewer than two events.",
    'Trusted: datetime/timedelta arithmetic is exact integer microsecond arithmetic; dict equality. The normal-form consequences (no two consecutive outputs mergeable, idempotence, coverage) follow on paper from MERGE+FOLD and are not machine-checked.',
    'exhaustive CFG path enumeration + affine canonicalisation of path literals and assignments (constant propagation), fold-shape matching',
)
claim(
    'C01',
    'proof',
    "'The store owns its copy' decided for all inputs by an access-path points-to / ownership analysis of all 13 interface methods x 3 backends: no mutable object reachable from a parameter stays reachable from the store (OWN-IN) and nothing returned shares an object with the store (OWN-OUT). The first sentence is claimed only through necessary conditions: the SQL backends' encode/decode tables and scale constants agree at every write and read site (CODEC), ids are engine-allocated unique keys / max+1 per bucket, Bucket.insert reaches exactly one backend write per path. The window-less listing is claimed through the PRED rule as well (the predicate is the inclusive intersection and an absent edge binds a sentinel that excludes no representable instant). A roll-back of the shared transaction (NO-ROLLBACK), a quantising column declaration (CODEC) and ids assigned over a whole-list deepcopy (IDALLOC) are covered too.",
    'Not decided: equality of instants to the millisecond and durations to the microsecond for 1970..2100 (float*1e6, INTEGER affinity, DECIMAL text, julianday) - numeric, not visible in code shape. Trusted: deepcopy yields a disjoint graph; json/SQLite hold no Python references.',
    'flow-sensitive access-path points-to / escape analysis with context-sensitive inlining; writer/reader table agreement over the embedded-SQL model',
)
claim(
    'C09',
    'other',
    "Decided for all inputs: filter_period_intersect leaves both input lists and every input event untouched at any depth (points-to analysis through the helper's in-place sorts and the deep copy); every result piece is the first list's event, deep-copied, cut to the pair's intersection; every path through the two-pointer sweep's loop body advances an index, advances one alone only under the literal that makes dropping that event safe, and yields exactly on the intersecting path; period_union sweeps the sorted concatenation, merges on `not gap` and clears data.",
    "Exactness (soundness AND completeness against set-theoretic intersection/union for every placement, total-duration equalities) is a loop invariant over unbounded lists and is NOT decided. Third-party Timeslot semantics are trusted (gap's strictness is inspected).",
    'access-path points-to purity analysis; loop-body path enumeration with affine canonicalisation of path literals (sweep safety); structural provenance matching',
)
claim(
    'C10',
    'other',
    'Decided for all inputs: flood does not modify its input (points-to analysis); only events with duration > 0 are returned; pairs are consecutive elements of the timestamp-sorted copy; the fill branch is entered on gap <= pulsetime (non-strict) and no other gap condition excludes a positive gap; in each of the four fill sub-branches the assignments, propagated as affine forms, close the gap exactly without losing covered time or creating overlap (differing data) or merge into one covering event and empty the other (equal data). Completeness of the threshold: every loop-body path that writes nothing implies gap <= 0 or gap > pulsetime; every early return hands back an empty list. Event fields are written only inside the sweep; the Event.duration setter stores what it is given (C13-DURATION).',
    'The property proper - non-overlap, coverage and label monotonicity over chains of three and more events - depends on how these local steps compose while the loop mutates neighbours; no static argument in reach decides it and it is NOT claimed.',
    'points-to purity analysis; loop-body path enumeration with constant propagation of affine forms and pairwise infeasible-path pruning',
)
claim(
    'C15',
    'other',
    'Decided for all inputs: neither input list nor any input event is modified (points-to analysis); list one comes back intact (no write targets anything flowing from it, each index advance is paired with exactly one append on every loop-body path, the tail is appended); _split_event partitions an event exactly at a strictly interior cut into two deep copies (affine post-conditions on its only splitting path); list two is cut at the end / start of the current list-one event and only split pieces or untouched elements enter the result. Every return goes through the sweep unless one list is empty (RESULT). List one is only re-bound to a whole-list copy, the sweep has no nested loop, and an untrimmed list-two event is emitted only behind `not intersects`.',
    'Non-overlap and coverage of the final result for every interleaving is a loop invariant over a list that grows while it is swept; it is NOT decided.',
    'points-to purity / write-set analysis; path enumeration with constant propagation of affine forms; pairing rule on loop-body paths',
)
claim(
    'C16',
    'other',
    "Decided for all inputs: none of the eight functions modifies its input (points-to analysis); merge_events_by_keys' group key is injective in (presence, value) per key (positional on every path of the key loop, or tagged); each event's duration is added exactly once to exactly one group / chunk and there is one output per group; sort / limit / filter / sum have the stated shapes with complementary filter polarity. chunk_events_by_key leaves the loop / skips an event only under `key not in event.data`. filter_keyvals shortcuts depend only on the event list being empty.",
    'Exactness of float sums and behaviour on unhashable values are not decided.',
    'points-to purity analysis; loop-body path enumeration for key injectivity; structural pairing rules',
)
claim(
    'C19',
    'proof',
    "Write-sets of categorize, tag, split_url_events and simplify_string computed by the points-to/effect analysis through every inlined callee: below the events parameter (or its deep copy) only event.data[<own keys>] is assigned - never timestamp, duration, id, another data key, a del or a list mutation - and the result is the same events in the same order. Category/tag choice (left fold, non-strict depth comparison so the later rule wins ties, matches in rule order) and Rule.match (None for empty regex, selected keys or all values, str values only, found-anywhere call, IGNORECASE iff asked) are decided against their specified shape. URL-KEYS: the six $-keys are the matching urlparse attributes, $domain drops exactly one leading 'www.'.",
    'Regex semantics and URL parsing results are trusted.',
    'access-path write-set (effect) analysis with context-sensitive inlining; affine canonicalisation of the tie-break literal; shape matching of Rule',
)
claim(
    'C12',
    'proof',
    "'Leaves the store unchanged' decided for every program: the set of writers is computed (SQL DML/DDL sites, peewee write chains / save(), writes below the memory containers found by the effect analysis, closed under 'calls a writer') and is disjoint from everything reachable from query() in the resolved call graph (function registry, both decorator wrappers, token-class dispatch, aw_transform). In-place annotating/clearing/re-timing transforms act on copies: the read methods reachable from queries return nothing that shares an object with the store (OWN-OUT). query_bucket / query_bucket_eventcount are literally a direct windowed read over the query's start and end of the function's own bucket argument, with no limit. STATELESS: nothing reachable from query() writes a module-level container (E2).",
    "Trusted: call resolution of the program model (calls it cannot resolve inside the reachable set are listed in evidence; they are builtins / third-party calls on values that are not the datastore), C01's trusted base. A vanished must-reach / must-write anchor is exit 2, so the zero-expected rule cannot pass vacuously.",
    'computed writer set ∩ call-graph reachability (type-resolved callees, registry and decorator dispatch) + points-to OWN-OUT + reaching-definition check of the window arguments',
)
claim(
    'C13',
    'other',
    "Decided for all inputs: every store to an Event's timestamp/duration key anywhere in the packages goes through the property setters (who-may-write, with a positive fixture) and __init__ assigns all four fields through the properties on every path; the timestamp setter's value passes through iso8601 parsing (strings), a floor-to-1000 microsecond idiom on every path, UTC attachment exactly for naive values, and astimezone(UTC); the duration setter is a total type dispatch (timedelta as is, Real as seconds, else TypeError); to_json_dict, Event.__init__'s keywords, the published schema and __eq__ agree on keys and encodings. The published schema admits every key with every JSON type the model's type aliases allow.",
    "Not decided: microsecond-exact float round trip of durations, the 10^6 microsecond values, the year range, iso8601's parsing of every offset.",
    'who-may-write scan over the parsed program; CFG post-dominance of the normalisation steps; integer-idiom canonicalisation; path summaries of the type dispatch; writer/reader key agreement incl. the JSON schema file',
)
claim(
    'C20',
    'proof',
    "'Never alters an existing user file' decided on load_config_toml's CFG: every file-writing construct is reachable only through the false edge of the existence test on the same, never re-bound path, and no reachable callee writes files. The overlay law of _merge decided path by path on its loop body (user-only key copied, two tables merged recursively in the same order, leaf overridden or left when equal, nothing deleted, first argument returned) plus the argument order (defaults, user) at the call site and the returned value. The first-run file is the commented-out defaults and the user document is empty on that branch. A key of the user's document that is neither copied, merged nor equal on some path is a violation. PATH: the file consulted is <config dir>/<appname>.toml by concatenation (suffix-replacing path operations are violations).",
    'Trusted: tomlkit.parse returns dict-like containers; os.path.isfile/open semantics. TOML semantics of multi-line values are outside the property (one-line values) and not decided.',
    'CFG edge-filtered reachability (write only under not-exists), loop-body path enumeration with constant propagation, call-graph closure for file writers',
)
claim(
    'C05',
    'other',
    "Structure of the bucket lifecycle decided per backend: parameter -> stored field -> listed key tables of create / update / list / describe agree on the seven metadata fields; update_bucket writes only supplied fields (each write guarded by a test of the same parameter; sqlite's SET list built from the non-None pairs); delete_bucket removes the bucket from every container that holds per-bucket state - derived from the DDL foreign keys / the peewee models / MemoryStorage.__init__ - on every normal path; the Bucket-handle cache and the peewee key cache follow creation and deletion; not-found operations reach raise ValueError / KeyError. Every keyed container a class keeps on self is evicted or rebuilt by its delete_bucket and the handle cache is filled only after the existence test (CACHES-ALL); a failed operation cannot roll back the shared transaction (NO-ROLLBACK). OWN-IN/OWN-OUT (E2) for the bucket-level methods.",
    "Not decided: histories (stale handles, re-creation races) and equality of returned metadata values. Trusted: SQL/peewee semantics of the modelled statements; scoping of the deletes is C04's SCOPE rule.",
    'writer/reader table composition over the embedded-SQL and peewee models; CFG must-pass-through for delete coverage, cache refresh and not-found raises',
)
claim(
    'C14',
    'other',
    "The migration path is run by no test; decided statically: every metadata field BucketModel.json() emits is forwarded to create_bucket on the parameter of the same meaning; id typestate (legacy events carry AutoField ids, the sqlite bulk insert only UPDATEs id-bearing events, so ids must be cleared or events rebuilt before the sink); every bucket and event is visited (no skip, negative limit, no window, the fetched list is what is inserted); only non-writers (C12's computed writer set) are called on the legacy store; the trigger fires exactly for a new default-location file after the schema is committed, and the file name / version it looks for equals what PeeweeStorage uses (finite fold over testing in {True, False}). Encode/decode agreement of both stores (CODEC) for 'same instant, duration and data'; bucket creation and event copying may be split over several loops, each of which must range over all buckets and address the bucket it is at. Opening the legacy store runs no row-modifying statement (execute_sql text other than PRAGMA/SELECT, model writes).",
    'Not decided: byte-for-byte immutability of the legacy file (opening it runs CREATE TABLE IF NOT EXISTS and auto_migrate), numeric fidelity of migrated instants.',
    'call-site argument/parameter mapping, id typestate over derived source/sink facts, CFG path conditions for the trigger, finite constant folding of the two file-name expressions',
)
claim(
    'C11',
    'other',
    "Structural necessary conditions of the hand-written front-end, each decided on the source and each with a named program that a violation mis-evaluates: every token scanner returns a partition of its input (complementary slices at one cut, or a prefix accumulator with its exact remainder); bracket depth changes only on paths outside both kinds of quotes and quote toggles honour the escape test; argument / entry loops store exactly one parsed value on every non-raising path and interpretation maps every argument, element and entry in order; statements are parsed and interpreted one at a time against the current namespace; registered functions take their injected parameters first and the wrappers forward positionally; the token-class table is exhaustive, ordered, and every class defines check/parse/interpret. The statement loop of query() has no early exit and skips only empty statements; every single-call built-in hands same-named arguments to same-named parameters; the registry wrapper's argument shuffling is folded over the four annotation cases. VALUES: no built-in writes at or below its arguments except the annotation keys of C19 (effect analysis E2 over all 22 built-ins); `_parse_token` stops at the first scanner that matches, by reachability.",
    'That the scanners accept exactly the grammar and denote the right value for EVERY program (language equivalence with a reference parser/evaluator) is not a shape property and is NOT decided.',
    'slice-complementarity and prefix-accumulator rules on returns; loop-body path enumeration for quote guards and one-value-per-iteration; shape matching of interpretation and registry wrappers',
)
claim(
    'C17',
    'proof',
    "Totality of the query front-end over all strings, decided without running it: every explicit raise in scope (query2.py, the two wrappers, the _verify helpers, the three bucket-access functions) is a query error by the class table of exceptions.py, the two foreign raises are shown unreachable (exhaustive overrides; datastore[x] dominated by the existence check); every may-raise site - constant-index subscript, int(), .check/.parse on a possibly-None class - is proved safe by an abstract interpretation from query() with an arbitrary string (string-shape domain {non-empty, right-stripped, all-decimal, class identity, ...} with disjunctive callee summaries); dict lookups and args[i] are dominated by their guards and the registry call's TypeError is translated; every while loop shrinks its string on each non-raising iteration and recursion descends on strict substrings. A bare re-raise inside a handler for a foreign exception class counts as raising that class. Calls that leave the analysed code are on a list of total functions or sit in a handler that raises a query error; closure-captured one-shot iterators are not consumed by the per-call wrappers; _verify_bucket_exists returns only behind `name in datastore.buckets()`.",
    "Outside 'parsing or name/arity/type resolution' and NOT decided: exceptions raised inside built-in bodies (bad regex, missing key in simplify_string, iso8601.ParseError in query_bucket_eventcount after a query re-binds STARTTIME), RecursionError on pathological nesting. Trusted: str.strip/slice/find and int() behave as the abstract domain models them; C11-PARTITION for the progress argument.",
    'abstract interpretation (disjunctive must-fact domain, callee summaries per abstract argument, loop fixpoints with liveness pruning) + exception class table + CFG dominance / edge-filtered reachability for guards',
)
