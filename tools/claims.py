# Claims table, exec'd by gen_manifest.py.  claim(id, category, text, level_note, technique)
claim(
    "C04",
    "proof",
    "Frame property decided for all ids, instants and histories at once: every SQL statement (every query level), every peewee chain/save() and every use of the in-memory per-bucket containers is restricted to the addressed bucket's key, the wrappers forward that key, and the key is unique by schema.",
    "Trusted: SQL semantics of the modelled subset, peewee's translation of the modelled builder calls (save() with a primary key = UPDATE by pk), C01's ownership rules for the memory backend. A statement outside the modelled subset is exit 2, not a pass.",
    "embedded-SQL / query-chain scope analysis (lark-parsed SQL, placeholder binding by reaching definitions) + CFG path-condition check for save()",
)
claim(
    "C06",
    "proof",
    "Commit discipline of the lazily-committing sqlite store decided on every path of every writing method (must-pass-through commit / conditional_commit with the right row count, threshold <= 60, counter reset, no split bucket operation, no foreign writer); the auto-committing store opens no transaction. Together with SQLite's transaction semantics this bounds the lost tail for every history and crash point.",
    "Trusted: SQLite/WAL loses exactly the statements since the last conn.commit(), each statement atomically; peewee autocommits outside atomic(). What the file holds after SIGKILL is not decided here.",
    "must-pass-through / dominance queries on per-method CFGs over DML sites classified by the embedded-SQL model; who-may-call scan",
)
claim(
    "C18",
    "proof",
    "The age test of conditional_commit is canonicalised to an affine literal over {clock, last_commit}; its sign, constant (1..15 s) and placement (evaluated on every lazy path that has not committed, true branch commits) are decided, as is that commit() stamps last_commit and that every event write reaches conditional_commit.",
    "Trusted: non-decreasing wall clock; durability of conn.commit() (C06).",
    "affine canonicalisation of the comparison + CFG placement (must-pass-through) queries",
)
