#!/usr/bin/env python3
"""dev helper: apply one patch to a private copy of /repo's HEAD and run some checks on it.
usage: tools/try.py <patch.diff|dir> C03 C07 ...   (prints the non-ok lines; removes the copy)"""
import os, shutil, subprocess, sys, tempfile
VERIF = os.path.dirname(os.path.dirname(os.path.abspath(__file__)))
p = sys.argv[1]
if os.path.isdir(p):
    p = os.path.join(p, "patch.diff")
tmp = tempfile.mkdtemp(prefix="try-")
try:
    subprocess.run(f"git -C /repo archive HEAD | tar -x -C {tmp}", shell=True, check=True)
    r = subprocess.run(f"git apply {os.path.abspath(p)}", shell=True, cwd=tmp, capture_output=True, text=True)
    if r.returncode:
        r = subprocess.run(f"patch -p1 < {os.path.abspath(p)}", shell=True, cwd=tmp, capture_output=True, text=True)
    if r.returncode:
        print("patch does not apply", r.stdout, r.stderr); sys.exit(3)
    if "--keep" in sys.argv:
        print("tree:", tmp)
    for c in [a for a in sys.argv[2:] if not a.startswith("--")]:
        r = subprocess.run(f"./check {c} --repo {tmp} --evidence-dir {tmp}/ev", shell=True, cwd=VERIF, capture_output=True, text=True)
        lines = [l for l in (r.stdout + r.stderr).splitlines() if l.strip()]
        print(f"--- {c} exit {r.returncode}")
        for l in lines[:-1]:
            print("   ", l[:400])
finally:
    if "--keep" not in sys.argv:
        shutil.rmtree(tmp, ignore_errors=True)
