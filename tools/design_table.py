#!/usr/bin/env python3
"""print the DESIGN.md table of one mutant round from seeded/*/meta.json:  tools/design_table.py r7"""
import glob, json, os, re, sys

VERIF = os.path.dirname(os.path.dirname(os.path.abspath(__file__)))
rnd = sys.argv[1]
print("| Mutant | What it breaks | Rule(s) of the target check | Also reported by |")
print("|---|---|---|---|")
for d in sorted(glob.glob(os.path.join(VERIF, "seeded", f"C??-{rnd}m*"))):
    m = json.load(open(os.path.join(d, "meta.json")))
    name = os.path.basename(d)
    prop = m["property"]
    sc = m.get("static_checks", {})
    rules = []
    for line in sc.get("reports", {}).get(prop, []):
        mm = re.search(r" — ([A-Z][A-Z0-9-]+) — ", line)
        if mm and mm.group(1) not in rules:
            rules.append(mm.group(1))
    others = [c for c in sc.get("caught_by", []) if c != prop]
    wb = " ".join(m.get("what_breaks", "").split()).replace("|", "/")[:210]
    print(f"| {name} | {wb} | {', '.join(rules) or ('MISSED' if prop not in sc.get('caught_by', []) else '')} | {', '.join(others)} |")
