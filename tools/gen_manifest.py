#!/usr/bin/env python3
"""Regenerate /verif/MANIFEST.json from the table below (one entry per claimed property)."""
import json
import os

HERE = os.path.dirname(os.path.dirname(os.path.abspath(__file__)))
props = [json.loads(l) for l in open(os.path.join(HERE, "properties.jsonl"))]

# id -> (category, text, design_ref, level_note, technique)
CLAIMS = {}


def claim(pid, category, text, note, technique, ref=None):
    CLAIMS[pid] = (category, text, ref or f"DESIGN.md §3 {pid}", note, technique)


NA = {}

exec(open(os.path.join(HERE, "tools", "claims.py")).read())

checks = []
for p in props:
    pid = p["id"]
    if pid not in CLAIMS:
        continue
    cat, text, ref, note, tech = CLAIMS[pid]
    checks.append(
        {
            "property_id": pid,
            "quick_cmd": f"./check {pid} --tier quick",
            "thorough_cmd": f"./check {pid} --tier thorough",
            "evidence_file": f"/verif/evidence/{pid}.json",
            "replay_cmd_template": f"./check {pid} --replay {{path}}",
            "engine": "awstatic",
            "level_claimed": {"category": cat, "text": text, "design_ref": ref},
            "level_note": note,
            "technique": tech,
        }
    )
na = []
for p in props:
    if p["id"] not in CLAIMS:
        na.append({"property_id": p["id"], "reason": NA.get(p["id"], "check not built yet (see DESIGN.md §3 for the planned static rules)")})
m = {
    "version": 1,
    "setup_cmd": "true",
    "hooks": {
        "guard": "AW_CORE_VERIF",
        "enable": "none needed: the checks only parse /repo's working tree (ast), nothing is built, imported or run",
        "baseline_off_cmd": "cd /repo && /venv/bin/python -m pytest -ra -q -p no:cacheprovider --timeout=900 --continue-on-collection-errors",
        "source_commits": [],
        "add_only": True,
    },
    "engines": [
        {
            "name": "awstatic",
            "path": "/verif/awstatic",
            "serves_properties": sorted(CLAIMS),
            "kind_free_text": "repo-specific static analysis over the parsed source (stdlib ast; lark for embedded SQL): program model + callee resolution (E0), statement CFG with branch literals, dominance and must-pass-through (E1), access-path points-to / ownership / write-set analysis (E2), embedded SQL and peewee query-chain model (E3), affine canonicalisation of instant/duration expressions (E4), abstract interpretation of the query front-end (E5). Never imports or runs repo code.",
        }
    ],
    "checks": checks,
    "notes": "Static analysis only (DESIGN.md). Exit 0 = every decided clause holds; exit 1 + VIOLATION line = a rule instance is violated by a named construct; exit 2 + ANALYSIS-ERROR/ANALYSIS-UNDECIDED = an anchor vanished or a construct is outside every enumerated idiom (never a silent pass). Each property is claimed through its decided (D) and necessary-condition (N) clauses only; level_note says what is not decided.",
    "not_applicable": na,
}
json.dump(m, open(os.path.join(HERE, "MANIFEST.json"), "w"), indent=1)
print(f"{len(checks)} checks, {len(na)} not applicable")
