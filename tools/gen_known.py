#!/usr/bin/env python3
"""Regenerate awstatic/known_constants.txt and awstatic/known_fingerprints.json from /repo (the tree the rules were
written against).  Run by hand when rules are re-anchored; never part of a registered check command."""
import ast
import json
import os
import sys

sys.path.insert(0, os.path.dirname(os.path.dirname(os.path.abspath(__file__))))
from awstatic import normalize  # noqa: E402
from awstatic.model import PACKAGES  # noqa: E402

repo = sys.argv[1] if len(sys.argv) > 1 else "/repo"
consts, fps = [], {}
for pkg in PACKAGES:
    for dp, dn, fn in os.walk(os.path.join(repo, pkg)):
        for f in sorted(fn):
            if not f.endswith(".py"):
                continue
            path = os.path.join(dp, f)
            rel = os.path.relpath(path, repo)
            name = rel[:-3].replace(os.sep, ".")
            if name.endswith(".__init__"):
                name = name[: -len(".__init__")]
            tree = ast.parse(open(path).read())
            consts += list(normalize.iter_constants(tree, name))
            for q, node, scope in normalize.iter_functions(tree, name):
                fps[q] = normalize.fingerprint(node)
                fps[q + "#arity"] = len(node.args.args)
here = os.path.join(os.path.dirname(os.path.dirname(os.path.abspath(__file__))), "awstatic")
open(os.path.join(here, "known_constants.txt"), "w").write("# module:NAME / module:Class.NAME present in the tree the rules were written against\n" + "\n".join(sorted(consts)) + "\n")
json.dump(fps, open(os.path.join(here, "known_fingerprints.json"), "w"), indent=0, sort_keys=True)
print(len(consts), "constants,", len(fps) // 2, "function fingerprints")
mods = []
for pkg in PACKAGES:
    for dp, dn, fn in os.walk(os.path.join(repo, pkg)):
        for f in sorted(fn):
            if f.endswith(".py"):
                n_ = os.path.relpath(os.path.join(dp, f), repo)[:-3].replace(os.sep, ".")
                mods.append(n_[: -len(".__init__")] if n_.endswith(".__init__") else n_)
open(os.path.join(here, "known_modules.txt"), "w").write("# modules present in the tree the rules were written against (a module not listed was introduced by a later refactoring)\n" + "\n".join(sorted(mods)) + "\n")
# from-imports of repo-internal names, per module (an import not listed was introduced by a later refactoring)
imps = []
for pkg in PACKAGES:
    for dp, dn, fn in os.walk(os.path.join(repo, pkg)):
        for f in sorted(fn):
            if not f.endswith(".py"):
                continue
            rel = os.path.relpath(os.path.join(dp, f), repo)
            name = rel[:-3].replace(os.sep, ".")
            if name.endswith(".__init__"):
                name = name[: -len(".__init__")]
            for st in ast.walk(ast.parse(open(os.path.join(dp, f)).read())):
                if isinstance(st, ast.ImportFrom) and (st.level >= 1 or (st.module or "").split(".")[0] in PACKAGES):
                    imps += [f"{name}:{a.name}" for a in st.names]
open(os.path.join(here, "known_imports.txt"), "w").write("# module:imported-name for the repo-internal from-imports of the tree the rules were written against\n" + "\n".join(sorted(set(imps))) + "\n")
