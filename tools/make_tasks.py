#!/usr/bin/env python3
"""Prepare scratch worktrees and TASK.txt files for a round of independent sub-agents.
usage: tools/make_tasks.py mutants <round-number> [angle-file]      -> /tmp/w<N>_Cnn/TASK.txt  (one per property)
       tools/make_tasks.py refactors <round-number> [style-file]    -> /tmp/r<N>_A..E/TASK.txt (one per area)
The sub-agents get ONLY "read <dir>/TASK.txt and do it"; nothing under /verif is mentioned to them."""
import glob, json, os, subprocess, sys

VERIF = os.path.dirname(os.path.dirname(os.path.abspath(__file__)))
PROPS = [json.loads(l) for l in open(os.path.join(VERIF, "properties.jsonl"))]
AREAS = {
    "A": ("the SQLite backend (SqliteStorage, _rows_to_events, schema constants)", "aw_datastore/storages/sqlite.py"),
    "B": ("the peewee and memory backends, the abstract storage interface and the Datastore / Bucket wrappers", "aw_datastore/storages/peewee.py, aw_datastore/storages/memory.py, aw_datastore/storages/abstract.py, aw_datastore/datastore.py"),
    "C": ("the query language: parser, interpreter and built-in functions", "aw_query/query2.py, aw_query/functions.py, aw_query/exceptions.py"),
    "D": ("the event transforms", "aw_transform/*.py"),
    "E": ("the Event model, configuration, directories and the legacy-database migration", "aw_core/models.py, aw_core/config.py, aw_core/dirs.py, aw_datastore/migration.py"),
}
DEFAULT_ANGLE = """Each should be something a developer could plausibly commit in good faith: an optimisation, a clean-up or
refactoring that goes subtly wrong, a "simplification", a wrong bug fix, a feature addition with a side effect, a change of a
default, a compatibility shim, a logging / metrics / validation addition, a port of behaviour from a sibling project."""
DEFAULT_STYLE = """Mix kinds: helpers split out or merged, loops <-> comprehensions, guard clauses, keyword arguments, constants, typing,
logging, context managers, equivalent rewrites of conditions and arithmetic. At least four of your ten should ADD code."""


def wt(d):
    if not os.path.isdir(d):
        subprocess.run(["git", "-C", "/repo", "worktree", "add", "--detach", d, "HEAD"], check=True, capture_output=True)


def run_line(d):
    return (f"Run the test-suite with:  cd {d} && XDG_DATA_HOME={d}/.xdg/data XDG_CONFIG_HOME={d}/.xdg/config XDG_CACHE_HOME={d}/.xdg/cache /venv/bin/python -m pytest -q -p no:cacheprovider\n"
            '(the pristine tree gives "156 passed, 2 skipped"). Use the same XDG variables for anything else you run (never touch ~/.config etc.).\n'
            "Do not use `git stash` (it is shared between worktrees): save work with `git diff > file`, restore with `git checkout -- .`.")


def mutants(n, angle):
    for p in PROPS:
        cid = p["id"]
        d = f"/tmp/w{n}_{cid}"
        wt(d)
        prior = []
        for m in sorted(glob.glob(os.path.join(VERIF, "seeded", f"{cid}-*"))):
            prior.append(" ".join(json.load(open(m + "/meta.json")).get("what_breaks", "").split())[:200])
        t = f"""You are working in a scratch git worktree of the ActivityWatch/aw-core repository (Python) at {d}.
Work ONLY inside {d}. Do not read or write anything under /verif or /repo.
{run_line(d)}

PROPERTY {cid}: {p['title']}
Statement: {p['statement']}
Holds: {p['quantifier']['text']}
Where the code is: {json.dumps(p['anchors'], indent=1)}

TASK. Produce THREE different, independent, realistic changes to the source code of the repository (not the tests),
each of which BREAKS the property above while the code still imports and the complete, unedited test-suite still passes
(156 passed). Each should need something specific to manifest (a particular input, history, interleaving, clock value or
configuration) rather than failing on every use. Prefer subtle over blatant.

{angle}

For each change i = 1, 2, 3 (each made alone on the pristine tree), write into {d}/MUTANT/m<i>/ :
  patch.diff   `git diff` of that change alone (must apply to the pristine tree with `git apply`)
  demo.py      a standalone script, run as `PYTHONPATH={d} /venv/bin/python demo.py` (with the XDG variables above or its own
               temporary directories), that demonstrates the broken property: exits non-zero and prints what went wrong when
               the change is applied, and exits 0 on the pristine tree. It must not depend on network or on files outside
               temporary directories it creates itself, and must not hard-code the path of this worktree.
  meta.json    {{"property": "{cid}", "what_breaks": "...", "needs_to_manifest": "...", "files_touched": [...],
                "verified": {{"tests_pass_with_change": true, "demo_fails_with_change": true, "demo_passes_without_change": true}}}}
Verify those three facts yourself for each change before you finish. Keep your own replies short. Leave the worktree pristine
at the end (`git checkout -- .`), with only MUTANT/, TASK.txt and .xdg untracked.

ALREADY PRODUCED (do something different):
""" + "\n".join(f"- {x}" for x in prior) + "\n"
        open(d + "/TASK.txt", "w").write(t)
    print("mutant tasks:", n)


def refactors(n, style):
    plist = "\n".join(f"{p['id']}: {p['title']}. {p['statement']}" for p in PROPS)
    for a, (what, files) in AREAS.items():
        d = f"/tmp/r{n}_{a}"
        wt(d)
        notes = []
        for f in sorted(glob.glob(os.path.join(VERIF, "benign", f"r?_{a}-r*", "note.txt"))) + sorted(glob.glob(os.path.join(VERIF, "benign", f"rf_{a}-r*", "note.txt"))):
            notes.append(" ".join(open(f).read().split())[:170])
        t = f"""You are working in a scratch git worktree of the ActivityWatch/aw-core repository (Python) at {d}.
Work ONLY inside {d}. Do not read or write anything under /verif or /repo.
{run_line(d)}

Your area: {what}  —  files: {files}

Users of this library rely on the following properties (they all hold on the pristine tree as far as anyone knows):
{plist}

TASK. Produce TEN different BEHAVIOUR-PRESERVING changes to code in your area, of the kind that shows up in everyday
maintenance pull requests and that a reviewer would wave through. Each must keep every one of the properties above true for
every input (not just the tested ones), keep the public API, and keep the complete unedited test-suite passing (156 passed).
Be careful about behaviour on edge cases (None, empty lists, ties, exceptions raised, evaluation order, in-place mutation,
identity vs copy): if a change alters ANY observable behaviour that the properties speak about, it does not qualify.

{style}

For each change i = 1..10 (each made alone on the pristine tree), write into {d}/REFACTOR/r<i>/ :
  patch.diff   `git diff` of that change alone (must apply to the pristine tree with `git apply`)
  note.txt     two or three sentences: what was changed and why behaviour is preserved
Verify for each that the patch applies and the suite passes. Keep your own replies short. Leave the worktree pristine at the
end (`git checkout -- .`), with only REFACTOR/, TASK.txt and .xdg untracked.

ALREADY DONE by other people in this area (do something different):
""" + "\n".join(f"- {x}" for x in notes) + "\n"
        open(d + "/TASK.txt", "w").write(t)
    print("refactor tasks:", n)


if __name__ == "__main__":
    kind, n = sys.argv[1], sys.argv[2]
    extra = open(sys.argv[3]).read().strip() if len(sys.argv) > 3 else None
    if kind == "mutants":
        mutants(n, extra or DEFAULT_ANGLE)
    else:
        refactors(n, extra or DEFAULT_STYLE)
