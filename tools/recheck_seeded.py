#!/usr/bin/env python3
"""Re-run the checks over every kept mutant (seeded/*/patch.diff) on private copies of /repo's HEAD and update
meta.json's static_checks.  Fast path of verify_seeded.py: the mutants were already confirmed (tests, demo)."""
import glob, json, os, re, shutil, subprocess, sys, tempfile
from concurrent.futures import ThreadPoolExecutor
VERIF = os.path.dirname(os.path.dirname(os.path.abspath(__file__)))
PROPS = [f"C{i:02d}" for i in range(1, 21)]
only_target = "--target" in sys.argv

def one(d):
    meta = json.load(open(os.path.join(d, "meta.json")))
    prop = meta["property"]
    tmp = tempfile.mkdtemp(prefix="rs-")
    try:
        subprocess.run(f"git -C /repo archive HEAD | tar -x -C {tmp}", shell=True, check=True)
        r = subprocess.run(f"git apply {d}/patch.diff", shell=True, cwd=tmp, capture_output=True, text=True)
        if r.returncode:
            return os.path.basename(d), prop, None, None, {}, "patch does not apply"
        caught, und, reports = [], [], {}
        for p in ([prop] if only_target else PROPS):
            r = subprocess.run(f"./check {p} --repo {tmp} --evidence-dir {tmp}/ev", shell=True, cwd=VERIF, capture_output=True, text=True)
            if r.returncode == 1:
                caught.append(p)
                reports[p] = [l.strip() for l in r.stdout.splitlines() if l.startswith("  ") and "—" in l][:4]
            elif r.returncode == 2:
                und.append(p)
        if not only_target:
            meta["static_checks"] = {"caught_by": caught, "caught_by_target_property": prop in caught, "undecided_in": und, "reports": reports}
            json.dump(meta, open(os.path.join(d, "meta.json"), "w"), indent=1)
        return os.path.basename(d), prop, caught, und, reports, ""
    finally:
        shutil.rmtree(tmp, ignore_errors=True)

dirs = [os.path.abspath(a) for a in sys.argv[1:] if not a.startswith("--")] or sorted(glob.glob(os.path.join(VERIF, "seeded", "*")))
miss = 0
with ThreadPoolExecutor(max_workers=8) as ex:
    for name, prop, caught, und, reports, err in ex.map(one, dirs):
        ok = caught is not None and prop in caught
        miss += 0 if ok else 1
        print(f"{name:10s} {'caught' if ok else 'MISSED'} by={caught} undecided={und} {err}")
print(f"{len(dirs)} mutants, {miss} not caught by their target property")
