import logging, traceback
logging.disable(logging.CRITICAL)
from datetime import datetime, timedelta, timezone
from aw_core.models import Event
from aw_datastore import Datastore
from aw_datastore.storages import MemoryStorage
from aw_query import query
from aw_query.functions import functions, q2_function
T0 = datetime(2020,1,1,tzinfo=timezone.utc)
ds = Datastore(MemoryStorage, testing=True)
b = ds.create_bucket('b','t','c','h')
b.insert(Event(timestamp=T0, duration=1, data={'a':1}))
def run(q):
    try:
        r = query('n', q, T0, T0+timedelta(hours=1), ds)
        print(repr(q), '->', repr(r))
    except Exception as e:
        print(repr(q), 'RAISED', type(e).__module__+'.'+type(e).__name__, e)
@q2_function()
def q2_ident(*args): return list(args)
for q in [
 'RETURN = ident(1,2,3);',
 'RETURN = ident([1],2,3);',
 'RETURN = ident([1],[2],3);',
 'RETURN = ident(ident(1),2,3);',
 'RETURN = ident({"a":1},2,3);',
 'RETURN = ident("a,b",2,3);',
 'RETURN = ident(1 , 2 ,3 );',
 'RETURN = [1 ];',
 'RETURN = [1 , 2];',
 'RETURN = [ ];',
 'RETURN = nop( );',
 'RETURN = {"a"};',
 'RETURN = {"a" : 1 };',
 'RETURN = {"a":1 , "b":2};',
 'RETURN = {"a":[1] , "b":2};',
 'RETURN = ²;',
 'RETURN = sort_by_timestamp();',
 'RETURN = limit_events([]);',
 'RETURN = query_bucket();',
 'RETURN = query_bucket("nope");',
 'STARTTIME = "foo"; RETURN = query_bucket("b");',
 'STARTTIME = "foo"; RETURN = query_bucket_eventcount("b");',
 'STARTTIME = 1; RETURN = query_bucket("b");',
 'RETURN = [1]x;',
 'RETURN = [[1],[2]];',
 'RETURN = [[1] , [2]];',
 'RETURN = {"a":{"b":1},"c":2};',
 'RETURN = {"a":{"b":1} ,"c":2};',
 'a = 1; a = 2; b = a; RETURN = b;',
 'RETURN = x;',
 'RETURN = (;',
 'RETURN = f(;',
 'RETURN = ";',
 'RETURN = [;',
 'RETURN = {;',
 'RETURN = ];',
 'RETURN == 1;',
 '= 1;',
 'RETURN',
 'RETURN = 1 = 2',
 'RETURN = nop()nop();',
 'RETURN = nop())',
 'RETURN = "a" "b"',
 'RETURN = ident("a" "b")',
 'RETURN = ident(1 2)',
 'RETURN = [1 2]',
 'RETURN = {"a":1 "b":2}',
 'RETURN = 1x',
 'RETURN = categorize([], [1]);',
 'RETURN = find_bucket("b", 5);',
 'RETURN = find_bucket(5);',
]:
    run(q)
