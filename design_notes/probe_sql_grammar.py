import sys, glob, ast
sys.path.insert(0, glob.glob('/opt/veriftools/wheels/lark-*.whl')[0])
from lark import Lark
G = r'''
start: stmt ";"?
?stmt: create_table | create_index | pragma | insert | update | delete | select
create_table: "CREATE"i "TABLE"i ("IF"i "NOT"i "EXISTS"i)? NAME "(" coldef ("," coldef)* ("," fk)* ")"
coldef: NAME TYPE colopt*
colopt: "PRIMARY"i "KEY"i -> pk | "AUTOINCREMENT"i -> autoinc | "UNIQUE"i -> unique | "NOT"i "NULL"i -> notnull
fk: "FOREIGN"i "KEY"i "(" NAME ")" "REFERENCES"i NAME "(" NAME ")"
create_index: "CREATE"i "INDEX"i ("IF"i "NOT"i "EXISTS"i)? NAME "ON"i NAME "(" NAME ("," NAME)* ")"
pragma: "PRAGMA"i NAME "=" NAME
insert: "INSERT"i "INTO"i NAME "(" NAME ("," NAME)* ")" "VALUES"i "(" expr ("," expr)* ")"
update: "UPDATE"i NAME "SET"i assign ("," assign)* where?
assign: NAME "=" expr
delete: "DELETE"i "FROM"i NAME where?
select: "SELECT"i selcols "FROM"i NAME NAME? where? orderby? limit?
selcols: selcol ("," selcol)*
?selcol: func | colref
func: NAME "(" (STAR | colref) ")"
where: "WHERE"i cond ("AND"i cond)*
cond: expr CMP expr | expr "IN"i "(" select ")" -> in_cond
orderby: "ORDER"i "BY"i ordkey ("," ordkey)*
ordkey: colref (ASC|DESC)?
limit: "LIMIT"i expr
?expr: PARAM | NUMBER | colref | "(" select ")" -> subselect
colref: NAME ("." NAME)?
ASC: "ASC"i
DESC: "DESC"i
STAR: "*"
PARAM: "?"
CMP: ">=" | "<=" | "=" | "<" | ">"
TYPE: "INTEGER"i | "TEXT"i
NAME: /(?!(?i:WHERE|AND|ORDER|LIMIT|FROM|SET|VALUES|IN|SELECT|ASC|DESC)\b)[A-Za-z_][A-Za-z_0-9]*/
NUMBER: /-?\d+/
%import common.WS
%ignore WS
'''
p = Lark(G, parser='earley')
src = open(sys.argv[1]).read(); t = ast.parse(src)
consts = {n.targets[0].id: n.value for n in t.body if isinstance(n, ast.Assign) and isinstance(n.targets[0], ast.Name)}
def fold(e, env):
    if isinstance(e, ast.Constant) and isinstance(e.value, str): return e.value
    if isinstance(e, ast.BinOp) and isinstance(e.op, ast.Add):
        a, b = fold(e.left, env), fold(e.right, env); return None if a is None or b is None else a + b
    if isinstance(e, ast.Name):
        v = env.get(e.id) or consts.get(e.id); return fold(v, env) if v is not None else None
    return None
ok = bad = 0
for fn in ast.walk(t):
    if not isinstance(fn, ast.FunctionDef): continue
    env = {}
    for n in ast.walk(fn):
        if isinstance(n, ast.Assign) and isinstance(n.targets[0], ast.Name): env[n.targets[0].id] = n.value
    for n in ast.walk(fn):
        if isinstance(n, ast.Call) and isinstance(n.func, ast.Attribute) and n.func.attr in ('execute', 'executemany') and n.args:
            s = fold(n.args[0], env)
            if s is None: print(fn.name, n.lineno, 'UNFOLDED', ast.unparse(n.args[0])[:60]); bad += 1; continue
            try: tr = p.parse(s); ok += 1; print(fn.name, n.lineno, tr.children[0].data)
            except Exception as e: bad += 1; print(fn.name, n.lineno, 'PARSE-FAIL', ' '.join(s.split())[:100], str(e)[:200])
print('ok', ok, 'bad', bad)
