import os, tempfile, logging, sqlite3
logging.disable(logging.CRITICAL)
from datetime import datetime, timedelta, timezone
from aw_core.models import Event
from aw_datastore import Datastore
from aw_datastore.storages import MemoryStorage, SqliteStorage, PeeweeStorage
from aw_transform import heartbeat_reduce, heartbeat_merge
import copy
T0 = datetime(2020,1,1,tzinfo=timezone.utc)
S = lambda s: timedelta(seconds=s)
def mk(kind):
    d = tempfile.mkdtemp()
    if kind=='memory': return Datastore(MemoryStorage, testing=True), None
    if kind=='sqlite': p=os.path.join(d,'s.db'); return Datastore(SqliteStorage, testing=True, filepath=p), p
    if kind=='peewee': p=os.path.join(d,'p.db'); return Datastore(PeeweeStorage, testing=True, filepath=p), p
def dump(b): return [(e.id, (e.timestamp-T0).total_seconds(), e.duration.total_seconds(), e.data) for e in b.get(-1)]

for kind in ['memory','sqlite','peewee']:
    print('=====', kind)
    ds,p = mk(kind)
    A = ds.create_bucket('A','t','c','h'); B = ds.create_bucket('B','t','c','h')
    # cross-bucket tie of end instants
    B.insert(Event(timestamp=T0, duration=10, data={'b':1}))
    A.insert(Event(timestamp=T0+S(5), duration=5, data={'a':1}))
    A.replace_last(Event(timestamp=T0+S(5), duration=5, data={'a':2}))
    print('C04 replace_last tie across buckets: A', dump(A), 'B', dump(B))
    # heartbeat stream with tie: e1 [0,5] x ; e2 [5,5] y (zero-length, same end)
    C = ds.create_bucket('C','t','c','h')
    stream = [Event(timestamp=T0+S(100), duration=5, data={'l':'x'}), Event(timestamp=T0+S(105), duration=0, data={'l':'y'}), Event(timestamp=T0+S(106), duration=0, data={'l':'y'})]
    for hb in copy.deepcopy(stream):
        last = C.get(limit=1)
        if last:
            m = heartbeat_merge(last[0], hb, 2)
            if m is not None:
                C.replace_last(m); continue
        C.insert(hb)
    ref = heartbeat_reduce(copy.deepcopy(stream), 2)
    print('C07 store:', sorted((x[1],x[2],str(x[3])) for x in dump(C)))
    print('C07 ref  :', sorted(((e.timestamp-T0).total_seconds(), e.duration.total_seconds(), str(e.data)) for e in ref))
    # C03 ordering: nested events
    D = ds.create_bucket('D','t','c','h')
    D.insert(Event(timestamp=T0, duration=100, data={'n':'outer'}))
    D.insert(Event(timestamp=T0+S(10), duration=1, data={'n':'inner'}))
    print('C03 order (expect inner first = newest ts):', [x[3]['n'] for x in dump(D)], 'limit1:', [e.data['n'] for e in D.get(limit=1)])
    # eventcount vs get
    w0, w1 = T0+S(50), T0+S(60)
    print('C03 window get:', [e.data['n'] for e in D.get(-1, w0, w1)], 'count:', D.get_eventcount(w0, w1))
    # C06: deletes uncommitted
    if p and kind=='sqlite':
        E = ds.create_bucket('E','t','c','h')
        E.insert([Event(timestamp=T0+S(i), duration=1, data={}) for i in range(200)])
        ids = [e.id for e in E.get(-1)]  # commit happens on read
        for i in ids[:150]: E.delete(i)
        c2 = sqlite3.connect(p)
        print('C06 after 150 deletes, second connection sees rows:', c2.execute("select count(*) from events where bucketrow=(select rowid from buckets where id='E')").fetchone())
        st = ds.storage_strategy
        print('   num_uncommitted_statements', st.num_uncommitted_statements)
        # C18
        st.commit()
        st.last_commit = datetime.now() - timedelta(seconds=60)
        E.insert(Event(timestamp=T0+S(1000), duration=1, data={'late':1}))
        print('C18 after insert 60s after last commit: committed rows', c2.execute("select count(*) from events where datastr like '%late%'").fetchone(), 'uncommitted', st.num_uncommitted_statements)
