import os, tempfile, logging, sqlite3, traceback
logging.disable(logging.CRITICAL)
from datetime import datetime, timedelta, timezone
from aw_core.models import Event
from aw_datastore import Datastore
from aw_datastore.storages import MemoryStorage, SqliteStorage, PeeweeStorage
T0 = datetime(2020,1,1,tzinfo=timezone.utc)
S = lambda s: timedelta(seconds=s)
def dump(b): return [(e.id, (e.timestamp-T0).total_seconds(), e.duration.total_seconds(), e.data) for e in b.get(-1)]
d = tempfile.mkdtemp(); p=os.path.join(d,'s.db')
ds = Datastore(SqliteStorage, testing=True, filepath=p)
B = ds.create_bucket('B','t','c','h'); A = ds.create_bucket('A','t','c','h')
B.insert(Event(timestamp=T0, duration=10, data={'b':1}))
A.insert(Event(timestamp=T0+S(5), duration=5, data={'a':1}))
A.replace_last(Event(timestamp=T0+S(5), duration=5, data={'a':2}))
print('sqlite replace_last cross-bucket tie: A', dump(A), 'B', dump(B))

# C14 migration
import platformdirs
os.environ['XDG_DATA_HOME'] = tempfile.mkdtemp()
from aw_core.dirs import get_data_dir
print(get_data_dir('aw-server'))
pw = PeeweeStorage(testing=True)
pw.create_bucket('mb','t','c','h','2020-01-01T00:00:00+00:00', name='nm', data={'k':'v'})
pw.insert_many('mb', [Event(timestamp=T0+S(i), duration=1, data={'i':i}) for i in range(5)])
print('legacy:', pw.buckets(), len(pw.get_events('mb',-1)))
pw.db.close()
sq = SqliteStorage(testing=True)
print('migrated buckets:', sq.buckets())
try:
    print('migrated events:', len(sq.get_events('mb', -1)))
except Exception as e: traceback.print_exc()
