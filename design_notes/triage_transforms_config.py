import logging, os, tempfile
logging.disable(logging.CRITICAL)
from datetime import datetime, timedelta, timezone
from aw_core.models import Event
from aw_transform import *
T0 = datetime(2020,1,1,tzinfo=timezone.utc)
S = lambda s: timedelta(seconds=s)
ev = [Event(timestamp=T0, duration=1, data={'a':1}), Event(timestamp=T0+S(1), duration=2, data={'b':1}), Event(timestamp=T0+S(3), duration=4, data={'a':1,'b':1})]
print('C16 merge keys a,b:', [(e.duration.total_seconds(), e.data) for e in merge_events_by_keys(ev, ['a','b'])])
# period_union mutation of inputs
a=[Event(timestamp=T0, duration=1, data={'x':1})]; b=[Event(timestamp=T0+S(10), duration=1, data={'y':1})]
r = period_union(a,b); print('period_union mutates inputs:', a, b)
# categorize mutates input
evs=[Event(timestamp=T0, duration=1, data={'title':'x'})]
categorize(evs, [(['A'], Rule({'regex':'x'}))]); print('categorize in place:', evs[0].data)
# heartbeat_reduce mutates input list
l=[Event(timestamp=T0, duration=1, data={}), Event(timestamp=T0+S(1), duration=1, data={})]
heartbeat_reduce(l, 5); print('heartbeat_reduce input after:', len(l), l)
# config
os.environ['XDG_CONFIG_HOME']=tempfile.mkdtemp()
from aw_core.config import load_config_toml
d = '''# c
[server]
host = "localhost" # inline
port = 5600
list = [
  1,
  2,
]
[server.sub]
x = 1
'''
print(load_config_toml('app', d))
from aw_core.dirs import get_config_dir
print(open(os.path.join(get_config_dir('app'),'app.toml')).read())
try: print(load_config_toml('app', d))
except Exception as e: print('second load raised', type(e).__name__, e)
