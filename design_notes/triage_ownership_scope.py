import os, tempfile, logging, traceback
logging.disable(logging.CRITICAL)
from datetime import datetime, timedelta, timezone
from aw_core.models import Event
from aw_datastore import Datastore, get_storage_methods
from aw_datastore.storages import MemoryStorage, SqliteStorage, PeeweeStorage

T0 = datetime(2020,1,1,tzinfo=timezone.utc)
def mk(kind):
    d = tempfile.mkdtemp()
    if kind=='memory': return Datastore(MemoryStorage, testing=True)
    if kind=='sqlite': return Datastore(SqliteStorage, testing=True, filepath=os.path.join(d,'s.db'))
    if kind=='peewee': return Datastore(PeeweeStorage, testing=True, filepath=os.path.join(d,'p.db'))

def dump(b): return sorted([(e.id, e.timestamp.isoformat(), e.duration.total_seconds(), e.data) for e in b.get(-1)], key=lambda x: (x[0] is None, x[0]))

for kind in ['memory','sqlite','peewee']:
    print('=====', kind)
    ds = mk(kind)
    A = ds.create_bucket('A','t','c','h', data={'k':{'n':1}})
    B = ds.create_bucket('B','t','c','h')
    # C01 ownership: mutate after insert
    ev = Event(timestamp=T0, duration=1, data={'x': {'y': 1}})
    A.insert(ev)
    ev.data['x']['y'] = 999
    ev.data['new'] = 1
    print('C01 mutate inserted ->', dump(A))
    m = A.metadata(); m['data']['k']['n'] = 42; m['type']='zzz'
    print('C01 mutate metadata ->', A.metadata())
    # C04: replace with id of other bucket
    eb = B.insert(Event(timestamp=T0, duration=2, data={'b':1}))
    bid = B.get(-1)[0].id
    print('B before', dump(B), 'A before', dump(A))
    try:
        A.replace(bid, Event(timestamp=T0+timedelta(hours=1), duration=3, data={'moved':1}))
    except Exception as e:
        print('replace raised', type(e).__name__, e)
    print('C04 after A.replace(id of B): B', dump(B), 'A', dump(A))
    # upsert via insert with id belonging to B
    B2 = B.get(-1)
    if B2:
        try:
            A.insert(Event(id=B2[0].id, timestamp=T0+timedelta(hours=2), duration=4, data={'ups':1}))
        except Exception as e:
            print('upsert raised', type(e).__name__, e)
        print('C04 after A.insert(id of B): B', dump(B), 'A', dump(A))
